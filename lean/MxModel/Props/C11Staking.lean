/-
  C11 (farm-staking side) — boosted rewards: per-week formula, single payment, bounded by the pool.

  Statement: for each completed week a user's boosted reward is
  min(maxFactor·R·f/F, R·(cE·e/E + cF·f/F)/(cE+cF)) with R the boosted share accumulated that
  week, f and F the user's and the farm's position, e and E the user's and total energy for that
  week, and zero below the configured minimum energy or minimum position.  The sum paid for a week
  never exceeds R, and whatever is left after the four-week claim window can be collected exactly
  once as undistributed rewards.

  Model: Core/Staking.lean (`boostedRewards` = `FarmBoostedYieldsWrapper::get_user_rewards_for_week`,
  plugged into the shared `Weekly.claimMulti`; `B.collected w` = the pool R(w) moved out of
  `accumulatedRewardsForWeek`, `B.paid w` = paid for week w, both ghosts).
  Only property theorems live here (helpers: Lemmas/Staking{Boosted,Pool,Factors}.lean).
-/
import MxModel.Lemmas.StakingFactors

namespace Mx.C11Staking
open Mx.Staking
open Mx.Weekly (collectAndGet upd Tok)

/-- the weekly reward hook pays either nothing, or — only when the week has energy and farm
    supply, and the user reaches the minimum energy and minimum position of the factors in force
    for THAT week — exactly
    `min ⌊maxF·R·f/F⌋ ⌊(⌊R·cE·e/E⌋ + ⌊R·cF·f/F⌋)/(cE+cF)⌋` of the week's frozen pool `R` -/
theorem boosted_formula {c' : BCfg} {userFarm : Nat} {g g' : Weekly.St} {b b' : B}
    {week e E : Nat} {r : List (Tok × Nat)}
    (h : boostedRewards c' userFarm g b week e E = some (g', b', r)) :
    r = [] ∨
    ∃ x R fac, r = [(0, x)] ∧ 0 < x ∧ E ≠ 0 ∧ b.farmSupply week ≠ 0 ∧
      c'.factorsForWeek week = some fac ∧ fac.minE ≤ e ∧ fac.minF ≤ userFarm ∧
      x = min (fac.maxF * R * userFarm / b.farmSupply week)
            ((R * fac.cE * e / E + R * fac.cF * userFarm / b.farmSupply week) / (fac.cE + fac.cF)) ∧
      (∃ t, (collectAndGet (collectBoosted c') g b week).2.2 = [(t, R)]) ∧
      b'.paid week = b.paid week + x := by
  obtain ⟨_, h1 | ⟨x, R, fac, h1, h2, h3, h4, h5, h6, h7, _, _, h10, h11, _, _, h14, _⟩⟩ := boostedRewards_spec h
  · exact Or.inl h1.1
  · refine Or.inr ⟨x, R, fac, h1, h2, h3, h4, h5, h6, h7, h10, h11, ?_⟩
    rw [h14]; exact Mx.Weekly.upd_same _ _ _

/-- zero below the thresholds: with less than the minimum energy or minimum farm position of the
    week's factors the hook pays nothing and leaves the pools alone -/
theorem boosted_zero_below_minimum {c' : BCfg} {userFarm : Nat} {g : Weekly.St} {b : B}
    {week e E : Nat} {fac : Factors} (hE : E ≠ 0) (hF : b.farmSupply week ≠ 0)
    (hf : c'.factorsForWeek week = some fac) (hmin : e < fac.minE ∨ userFarm < fac.minF) :
    boostedRewards c' userFarm g b week e E = some (g, b, []) := by
  unfold boostedRewards
  have h0 : ¬(E = 0 ∨ b.farmSupply week = 0) := by
    intro h; rcases h with h | h
    · exact hE h
    · exact hF h
  simp only [h0, if_false, hf, Option.bind_eq_bind, Option.bind_some, hmin, if_true, Option.pure_def]

/-- zero without energy or supply for the week -/
theorem boosted_zero_without_totals {c' : BCfg} {userFarm : Nat} {g : Weekly.St} {b : B}
    {week e E : Nat} (h0 : E = 0 ∨ b.farmSupply week = 0) :
    boostedRewards c' userFarm g b week e E = some (g, b, []) := by
  unfold boostedRewards
  simp only [h0, if_true]

/-- the pool bound as an invariant of every history: for every week, what is still distributable
    plus everything paid for that week is at most the pool `R(week)` that was frozen for it —
    so the sum paid for a week never exceeds R -/
theorem week_pool_bound (epoch block dsc maxApr minUnbond perBlock : Nat) (accts wl : List Nat)
    (ops : List Op) (week : Nat) :
    let s := run (init epoch block dsc maxApr minUnbond perBlock accts wl) ops
    s.b.remaining week + s.b.paid week ≤ s.b.collected week := by
  intro s
  have h : PoolOK s.b := run_pool ops (by
    show PoolOK (init epoch block dsc maxApr minUnbond perBlock accts wl).b
    exact PoolOK.init)
  exact h week

/-- one transaction keeps the bound for every week (any operation, any arguments) -/
theorem week_pool_bound_step {s s' : St} {op : Op} {o : Out}
    (hb : ∀ k, s.b.remaining k + s.b.paid k ≤ s.b.collected k) (h : step s op = some (s', o)) :
    ∀ k, s'.b.remaining k + s'.b.paid k ≤ s'.b.collected k :=
  step_pool hb h

/-- `collectUndistributedBoostedRewards` takes exactly the not-yet-collected weeks up to
    `current − 5` (i.e. only weeks outside the four-week claim window), moves their `remaining`
    into the undistributed total and zeroes them; no other week is touched -/
theorem undistributed_collect {s s' : St} {o : Out} (h : collectUndistributed s = some (s', o)) :
    5 < s.week ∧
    (s.week - 5 ≤ s.lastCollectWeek ∧ s' = s ∨
     s.lastCollectWeek < s.week - 5 ∧ s'.lastCollectWeek = s.week - 5 ∧
       (∀ k, s'.b.remaining k =
          if s.lastCollectWeek + 1 ≤ k ∧ k ≤ s.week - 5 then 0 else s.b.remaining k) ∧
       s'.undistributed = s.undistributed +
          ((List.range (s.week - 5 - s.lastCollectWeek)).map
             fun i => s.b.remaining (s.lastCollectWeek + 1 + i)).sum) := by
  obtain ⟨h1, h2 | ⟨h2, h3, h4, h5, _⟩⟩ := collectUndistributed_spec h
  · exact ⟨h1, Or.inl h2⟩
  · exact ⟨h1, Or.inr ⟨h2, h3, h4, h5⟩⟩

/-- exactly once: collecting again in the same week changes nothing -/
theorem undistributed_once {s s1 : St} {o : Out} (h : collectUndistributed s = some (s1, o)) :
    collectUndistributed s1 = some (s1, {}) := by
  obtain ⟨hw, ⟨hle, rfl⟩ | ⟨_, hl, _, _, _, _, _, hwk⟩⟩ := collectUndistributed_spec h
  · have hU : Mx.Weekly.USER_MAX_CLAIM_WEEKS = 4 := rfl
    simp only [collectUndistributed, hU, Option.bind_eq_bind]
    rw [req_true (by omega)]
    simp only [Option.bind_some]
    rw [if_pos (by omega)]
    rfl
  · have hU : Mx.Weekly.USER_MAX_CLAIM_WEEKS = 4 := rfl
    simp only [collectUndistributed, hU, Option.bind_eq_bind, hwk, hl]
    rw [req_true (by omega)]
    simp only [Option.bind_some]
    rw [if_pos (by omega)]
    rfl

/-- factors in force: the very first configuration also covers the four weeks before it -/
theorem factors_first_config (W w : Nat) (x : Factors) (h1 : w < W) (h2 : W - w < 5) :
    (BCfg.new W x).factorsForWeek w = some x :=
  BCfg.new_factorsForWeek W w x h1 h2

/-- factors in force under updates between weeks (`update W new` is what both
    `setBoostedYieldsFactors` and every read of the configuration perform): weeks before the
    previous update keep their factors while they stay in the 5-slot window; the weeks from the
    previous update up to (excluding) the current one get the factors that were latest; the
    current week gets the new factors (or keeps the latest) -/
theorem factors_for_week {c c' : BCfg} {W : Nat} {new : Option Factors} (hl : c.f.length = 5)
    (h : c.update W new = some c') :
    c'.f.length = 5 ∧ c'.lastUpdateWeek = W ∧
    (∃ last, c.latest = some last ∧ c'.latest = some (new.getD last)) ∧
    (∀ w, w < c.lastUpdateWeek → W - w < 5 → c'.factorsForWeek w = c.factorsForWeek w) ∧
    (∀ w, c.lastUpdateWeek ≤ w → w < W → W - w < 5 → c'.factorsForWeek w = c.latest) := by
  obtain ⟨_, h2, h3, h4, h5, h6⟩ := BCfg.update_spec hl h
  exact ⟨h2, h3, h4, h5, h6⟩

/-- non-vacuity: a user with energy stakes in week 1, the week's cut is 12500, and the claim in
    week 2 pays exactly that pool (single user: min(10·R, R) = R) -/
example :
    let s0 := init 5 10 1000000000000 1000000 5 5000 [1, 2, 101] [101]
    let s := run s0
      [.topUp 100000000, .setBoostedPct 2500, .setFactors ⟨10, 3, 2, 1, 1⟩, .setEnergy 1 10000 100,
       .stake 1 none 100000000000 [], .advance 10 0, .claimBoosted 1 none, .advance 1 7,
       .claim 1 none (1, 100000000000)]
    s.b.collected 1 = 12500 ∧ s.b.paid 1 = 12500 ∧ s.b.remaining 1 = 0 ∧ s.paidBoosted = 12500 ∧
    s.paidBase = 41250 := by
  decide

end Mx.C11Staking
