/-
  KUnstake — the token-unstake part of the energy model (`Core/Energy.lean`: the penalty split of
  `claimEntries` / `reduceLock`, the unbond epoch of `unlockEarly`, `Entry.restoreCancel`) computes
  what the SOURCE of `locked-asset/token-unstake/src/{fees_handler.rs, unbond_tokens.rs,
  cancel_unstake.rs}` computes.

  `Gen/KUnstake.lean` is regenerated on every run by `bin/gen-kernels` (group `Unstake`):

    * `burn_penalty_split`       `burn_penalty`: burn `⌊penalty · pct / 10000⌋`, the rest to the fees collector
    * `set_fees_burn_percentage` the owner's setter with its range guard
    * `unbond_unlock_epoch`      `depositUserTokens`: the epoch at which an entry becomes claimable
    * `claim_entry_ready`, `claim_entry_amounts`   per entry of `claimUnlockedTokens`: claimable yet?,
                                 locked tokens burned (= the unlocked amount) and the penalty (the rest)
    * `cancel_entry_energy`      per entry of `cancelUnbond`: the energy given back (calls the translated
                                 `Energy` methods of group `Energy`)

  Property C09 (early exit costs exactly the documented penalty) rests on the first, fourth and
  fifth; C08 (energy = time-weighted sum) on the last.
-/
import MxModel.Gen.KUnstake
import MxModel.Core.Energy
import MxModel.Props.KEnergy
import MxModel.Lemmas.KTactic

namespace Mx.KUnstake
open Mx Mx.Gen Mx.Energy

/-- the penalty split: `(burn, rest) = (⌊pen · pct / 10000⌋, pen − burn)`; the subtraction is
    checked, so a burn percentage above 100 % whose burn exceeds the penalty aborts -/
theorem burn_penalty_split_eq (pen pct : Nat) :
    KUnstake.burn_penalty_split pen pct =
      if pen < pen * pct / MAXPCT then none
      else some (pen * pct / MAXPCT, pen - pen * pct / MAXPCT) := by
  have hX : MAXPCT = 10000 := rfl
  k_defs [KUnstake.burn_penalty_split, hX]
  k_solve

/-- within the setter's range the split never aborts and is the model's
    `burn := pen * burnPct / MAXPCT`, `collected += pen − burn` -/
theorem burn_penalty_split_some (pen pct : Nat) (hp : pct ≤ MAXPCT) :
    KUnstake.burn_penalty_split pen pct =
      some (pen * pct / MAXPCT, pen - pen * pct / MAXPCT) := by
  have hX : MAXPCT = 10000 := rfl
  rw [burn_penalty_split_eq, if_neg]
  rw [hX] at hp ⊢
  have h1 : pen * pct ≤ pen * 10000 := Nat.mul_le_mul_left _ hp
  have h2 : pen * pct / 10000 ≤ pen := by
    apply Nat.div_le_of_le_mul
    rw [Nat.mul_comm 10000 pen]; exact h1
  omega

/-- burn + forwarded = the penalty -/
theorem burn_penalty_split_sum (pen pct b r : Nat)
    (h : KUnstake.burn_penalty_split pen pct = some (b, r)) : b + r = pen := by
  rw [burn_penalty_split_eq] at h
  split at h
  · cases h
  · simp only [Option.some.injEq, Prod.mk.injEq] at h
    omega

/-- `setFeesBurnPercentage` accepts exactly the percentages up to 100 % -/
theorem set_fees_burn_percentage_eq (pct : Nat) :
    KUnstake.set_fees_burn_percentage pct = if pct ≤ MAXPCT then some pct else none := by
  have hX : MAXPCT = 10000 := rfl
  k_defs [KUnstake.set_fees_burn_percentage, hX]
  k_solve

/-- … which is the model's owner operation `cfg (.setBurnPct p)` -/
theorem set_fees_burn_percentage_cfg (s : St) (pct : Nat) :
    KUnstake.set_fees_burn_percentage pct = (cfg s (.setBurnPct pct)).map (·.burnPct) := by
  have hX : MAXPCT = 10000 := rfl
  k_defs [KUnstake.set_fees_burn_percentage, cfg, hX]
  k_solve

/-- an entry deposited at epoch `now` becomes claimable at `now + unbond_epochs`
    (the `unlock` field of the entry the model's `unlockEarly` appends) -/
theorem unbond_unlock_epoch_eq (now unbond : Nat) :
    KUnstake.unbond_unlock_epoch now unbond = some (now + unbond) := by
  k_defs [KUnstake.unbond_unlock_epoch]
  try k_solve

/-- `claimUnlockedTokens` stops at the first entry whose unbond epoch has not been reached
    (the model's `takeWhile (fun e => e.unlock ≤ now)`): 1 = process the entry, 0 = stop -/
theorem claim_entry_ready_eq (now : Nat) (q : UEntry) :
    KUnstake.claim_entry_ready now q.unlock = some (if q.unlock ≤ now then 1 else 0) := by
  k_defs [KUnstake.claim_entry_ready]
  k_solve

/-- per claimed entry: `unlocked` of the locked tokens are burned and the rest,
    `locked − unlocked` (checked), is the penalty — the model's `pen ← sub? q.locked q.unlocked`.
    Result (burned locked tokens, penalty) -/
theorem claim_entry_amounts_eq (q : UEntry) :
    KUnstake.claim_entry_amounts q.locked q.unlocked =
      (sub? q.locked q.unlocked).map fun pen => (q.unlocked, pen) := by
  k_defs [KUnstake.claim_entry_amounts]
  k_solve

/-- per entry of `cancelUnbond` the source gives back exactly the model's `Entry.restoreCancel`:
    `add_after_token_lock` while the token is still locked (`unlock ≥ current`), otherwise the raw
    pair `add_energy_raw(amount, 0)` / `remove_energy_raw(0, amount · (current − unlock))`.
    Result (energy.amount, energy.total_locked_tokens) -/
theorem cancel_entry_energy_eq (e : Entry) (amt unlock now : Nat) :
    KUnstake.cancel_entry_energy e.E e.T unlock now amt =
      some ((e.restoreCancel amt unlock now).E, (e.restoreCancel amt unlock now).T) := by
  k_defs [KUnstake.cancel_entry_energy, KEnergy.add_after_token_lock, KEnergy.add, KEnergy.add_energy_raw,
    KEnergy.remove_energy_raw, Entry.restoreCancel, Entry.addAfterLock, Entry.add, Entry.addExpired]
  k_solve

/-- `restoreCancel` keeps `last_update_epoch` -/
theorem restoreCancel_frame (e : Entry) (amt unlock now : Nat) :
    (e.restoreCancel amt unlock now).last = e.last := by
  simp only [Entry.restoreCancel]
  split
  · exact Mx.KEnergy.addAfterLock_frame e amt unlock now
  · rfl

example : KUnstake.burn_penalty_split 1000 2500 = some (250, 750) := by decide
example : KUnstake.burn_penalty_split 3 5000 = some (1, 2) := by decide
example : KUnstake.claim_entry_amounts 100 60 = some (60, 40) := by decide
example : KUnstake.claim_entry_amounts 60 100 = none := by decide
example : KUnstake.cancel_entry_energy 100 5 20 10 7 = some (170, 12) := by decide
example : KUnstake.cancel_entry_energy 100 5 6 10 7 = some (72, 12) := by decide

end Mx.KUnstake
