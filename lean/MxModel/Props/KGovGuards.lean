/-
  KGovGuards — the guards of governance `vote` and `withdrawDeposit`
  (energy-integration/governance-v2/src/lib.rs) as the SOURCE writes them, against
  `Core/Governance.lean` (property C18: only an Active proposal can be voted on and only once per
  address; the deposit comes back only after the vote ended, once, and — unless vetoed — only to
  the proposer).

  Generated (`Gen/KGov.lean`):
    * `vote_guard`               head of `vote` up to the tally: `require_valid_proposal_id` (a helper
                                 of the crate, inlined), `get_proposal_status(id) == Active` (the
                                 translated status function, its enum result compared by variant
                                 index), `user_voted_proposals(voter).insert(id)` must be new
    * `withdraw_deposit_guards`  the WHOLE `withdraw_deposit` with the transfers / the burn / the
                                 storage write-back skipped: the `match` on the status (None and
                                 Pending / Active abort), the proposer and once-only checks per
                                 arm; result = the new `fee_withdrawn` flag
-/
import MxModel.Props.KGov

namespace Mx.KGovGuards
open Mx Mx.Gen Mx.Gov

/-- head of `vote` on an EXISTING proposal (the three predicates as the source computes them): it
    passes exactly when the id is valid, the proposal is Active at the current block and the voter is
    not yet in the proposal's voter set -/
theorem vote_guard_eq (p : Proposal) (b c id : Nat) (valid voted : Bool) :
    KGov.vote_guard (decide p.vetoed) (decide p.voteReached) b c valid true p.start p.delay p.period id
        (decide p.quorumReached) voted =
      if valid = true ∧ p.statusAt b = .active ∧ voted = false then some () else none := by
  k_defs [KGov.vote_guard, KGov.get_proposal_status_eq]
  cases valid <;> cases voted <;> cases h : p.statusAt b <;> simp [Status.tag]

/-- a missing / cleared proposal cannot be voted on, whatever the other inputs -/
theorem vote_guard_missing (b c st dl pd id : Nat) (valid voted q v r : Bool) :
    KGov.vote_guard v r b c valid false st dl pd id q voted = none := by
  k_defs [KGov.vote_guard, KGov.get_proposal_status_missing]
  cases valid <;> simp [Status.tag]

/-- **every vote the model accepts passed the source's head** (with the stored proposal's fields,
    the current block, and "already voted" = membership in the model's voter list) -/
theorem vote_runs_source_guard {s s' : St} {c id : Nat} {v : Vote} {o : Out}
    (h : vote s c id v = some (s', o)) :
    ∃ p, s.get? id = some p ∧
      KGov.vote_guard (decide p.vetoed) (decide p.voteReached) s.block c true true p.start p.delay
        p.period id (decide p.quorumReached) (decide (c ∈ p.voters)) = some () := by
  obtain ⟨p, _, _, _, hst, hg, hnv, _⟩ := vote_spec h
  refine ⟨p, hg, ?_⟩
  have hs : p.statusAt s.block = .active := by
    simp only [St.status, hg] at hst
    split at hst
    · cases hst
    · exact hst
  rw [vote_guard_eq, if_pos ⟨rfl, hs, by simp [hnv]⟩]

/-- closed form of `withdraw_deposit` on an existing proposal at status `st`: Succeeded / Defeated need
    the proposer as caller and an unwithdrawn fee; DefeatedWithVeto needs an unwithdrawn fee and a
    refund not above the fee; every other status (None, Pending, Active) aborts.  A passing call sets
    the flag. -/
theorem withdraw_deposit_guards_eq (p : Proposal) (b c id : Nat) :
    KGov.withdraw_deposit_guards b c true p.fee p.withdrawn p.start p.proposer p.delay p.period p.wpct id
        (decide p.quorumReached) (decide p.vetoed) (decide p.voteReached) =
      match p.statusAt b with
      | .succeeded | .defeated => if c = p.proposer ∧ p.withdrawn = false then some true else none
      | .vetoed => if p.withdrawn = false ∧ p.wpct * p.fee / FULL ≤ p.fee then some true else none
      | _ => none := by
  have hF : FULL = 10000 := rfl
  k_defs [KGov.withdraw_deposit_guards, KGov.get_proposal_status_eq, hF]
  cases h : p.statusAt b <;> simp only [Status.tag] <;> cases hw : p.withdrawn <;>
    repeat' (first | k_unfold | split) <;> simp_all <;> omega

/-- a missing / cleared proposal: `withdrawDeposit` aborts ("Proposal does not exist") -/
theorem withdraw_deposit_guards_missing (b c fee st pr dl pd wp id : Nat) (w q v r : Bool) :
    KGov.withdraw_deposit_guards b c false fee w st pr dl pd wp id q v r = none := by
  k_defs [KGov.withdraw_deposit_guards, KGov.get_proposal_status_missing]
  simp [Status.tag]

/-- **every `withdrawDeposit` the model accepts passed the source's guards**, which set the flag -/
theorem withdraw_runs_source_guards {s s' : St} {c id : Nat} {o : Out}
    (h : withdraw s c id = some (s', o)) :
    ∃ p, s.get? id = some p ∧
      KGov.withdraw_deposit_guards s.block c true p.fee p.withdrawn p.start p.proposer p.delay p.period
        p.wpct id (decide p.quorumReached) (decide p.vetoed) (decide p.voteReached) = some true := by
  obtain ⟨p, _, hg, hw, hc⟩ := withdraw_spec h
  refine ⟨p, hg, ?_⟩
  have hs : ∀ x, s.status id = x → x ≠ .none → p.statusAt s.block = x := by
    intro x hx hn
    simp only [St.status, hg] at hx
    split at hx
    · exact absurd hx.symm hn
    · exact hx
  rw [withdraw_deposit_guards_eq]
  rcases hc with ⟨hst, hcp, _⟩ | ⟨hst, hle, _⟩
  · rcases hst with hst | hst
    · rw [hs _ hst (by simp)]; simp [hcp, hw]
    · rw [hs _ hst (by simp)]; simp [hcp, hw]
  · rw [hs _ hst (by simp)]; simp [hw, hle]

example : KGov.vote_guard false false 20 9 true true 10 5 20 1 false false = some () := by decide
example : KGov.vote_guard false false 20 9 true true 10 5 20 1 false true = none := by decide
example : KGov.vote_guard false false 12 9 true true 10 5 20 1 false false = none := by decide
example : KGov.vote_guard false false 20 9 false true 10 5 20 1 false false = none := by decide
-- block 50: voting over; defeated (no quorum): only the proposer (7), only once
example : KGov.withdraw_deposit_guards 50 7 true 1000 false 10 7 5 20 2500 1 false false false = some true := by decide
example : KGov.withdraw_deposit_guards 50 8 true 1000 false 10 7 5 20 2500 1 false false false = none := by decide
example : KGov.withdraw_deposit_guards 50 7 true 1000 true 10 7 5 20 2500 1 false false false = none := by decide
example : KGov.withdraw_deposit_guards 20 7 true 1000 false 10 7 5 20 2500 1 false false false = none := by decide
example : KGov.withdraw_deposit_guards 50 8 true 1000 false 10 7 5 20 2500 1 false true false = some true := by decide

end Mx.KGovGuards
