/-
  C18 — Governance: status from time and tallies; one vote per address; exact fee escrow.

  Statement: a proposal's status is the documented function of block height and tallies
  (pending before the delay, active during the voting period, then succeeded iff quorum is
  reached, up-votes exceed half and veto votes do not exceed a third; vetoed iff veto votes
  exceed a third; otherwise defeated).  Each address votes at most once per proposal, only
  while it is active, with power sqrt(energy) and quorum weight energy.  The proposal fee
  leaves escrow at most once: fully refunded to the proposer on cancel (proposer only,
  pending only), success or defeat, and on veto the configured fraction is refunded and the
  rest burned.

  Model: Core/Governance.lean.  `s.bal` = the contract's real fee-token balance, `s.wallet` =
  users' fee-token balances, `s.burned` = fee tokens burned so far.
  Only property theorems live in this file; helper lemmas are in Lemmas/Gov*.lean.
-/
import MxModel.Lemmas.GovInv

namespace Mx.C18
open Mx.Gov

/-! ### status -/

/-- the status of a stored proposal is the documented function of block and tallies:
    Pending before `start + delay`, Active for the next `period` blocks, and from then on
    Succeeded ⇔ quorum reached ∧ up > ⌊total/2⌋ ∧ ¬ veto > ⌊total/3⌋,
    DefeatedWithVeto ⇔ veto > ⌊total/3⌋, Defeated otherwise; where quorum reached means
    `quorum · 10000 ≥ minimum_quorum · total_quorum` -/
theorem status_fn (p : Proposal) (b : Nat) :
    (b < p.start + p.delay → p.statusAt b = .pending) ∧
    (p.start + p.delay ≤ b → b < p.start + p.delay + p.period → p.statusAt b = .active) ∧
    (p.start + p.delay + p.period ≤ b →
      (p.statusAt b = .succeeded ↔
        p.minQuorum * p.totalQuorum ≤ p.quorum * 10000 ∧
        (p.up + p.down + p.veto + p.abstain) / 2 < p.up ∧
        ¬ (p.up + p.down + p.veto + p.abstain) / 3 < p.veto) ∧
      (p.statusAt b = .vetoed ↔ (p.up + p.down + p.veto + p.abstain) / 3 < p.veto) ∧
      (p.statusAt b = .defeated ↔
        ¬ (p.up + p.down + p.veto + p.abstain) / 3 < p.veto ∧
        ¬ (p.minQuorum * p.totalQuorum ≤ p.quorum * 10000 ∧
           (p.up + p.down + p.veto + p.abstain) / 2 < p.up))) := by
  refine ⟨fun h => statusAt_pending.2 h, fun h1 h2 => statusAt_active.2 ⟨h1, h2⟩, fun h => ?_⟩
  have a1 : ¬ b < p.start + p.delay := by omega
  have a2 : ¬ b < p.start + p.delay + p.period := by omega
  have hF : FULL = 10000 := rfl
  simp only [Proposal.statusAt, a1, a2, if_false, Proposal.quorumReached, Proposal.voteReached,
    Proposal.vetoed, Proposal.totalVotes, hF]
  by_cases hv : (p.up + p.down + p.veto + p.abstain) / 3 < p.veto <;>
  by_cases hq : p.minQuorum * p.totalQuorum ≤ p.quorum * 10000 <;>
  by_cases hu : (p.up + p.down + p.veto + p.abstain) / 2 < p.up <;>
  simp [hv, hq, hu]

/-- the threshold-equality cases: exactly half the votes up is not enough, exactly a third
    veto is not a veto, exactly the required quorum is enough -/
theorem status_thresholds (p : Proposal) (b : Nat) (h : p.start + p.delay + p.period ≤ b) :
    (p.up = p.totalVotes / 2 → p.statusAt b ≠ .succeeded) ∧
    (p.veto = p.totalVotes / 3 → p.statusAt b ≠ .vetoed) ∧
    (p.quorum * 10000 = p.minQuorum * p.totalQuorum → p.totalVotes / 2 < p.up →
      p.veto ≤ p.totalVotes / 3 → p.statusAt b = .succeeded) ∧
    (p.veto = p.totalVotes / 3 + 1 → p.statusAt b = .vetoed) := by
  obtain ⟨_, _, h3⟩ := status_fn p b
  obtain ⟨hs, hv, _⟩ := h3 h
  unfold Proposal.totalVotes
  refine ⟨?_, ?_, ?_, ?_⟩
  · intro e hst; have := (hs.1 hst).2.1; omega
  · intro e hst; have := hv.1 hst; omega
  · intro e hu hv'; exact hs.2 ⟨by omega, hu, by omega⟩
  · intro e; exact hv.2 (by omega)

/-- `getProposalStatus`: None exactly for ids never issued or cancelled, otherwise `statusAt` -/
theorem status_view (s : St) (id : Nat) :
    (s.status id = .none ↔ (s.get? id = none ∨ ∃ p, s.get? id = some p ∧ p.cleared = true)) ∧
    (∀ p, s.get? id = some p → p.cleared = false → s.status id = p.statusAt s.block) := by
  constructor
  · cases hg : s.get? id with
    | none => simp [status_none_of_get_none hg]
    | some p =>
      rw [status_of_get hg]
      cases hc : p.cleared with
      | true => simp [hc]
      | false => simp [hc, statusAt_ne_none]
  · intro p hg hc
    rw [status_of_get hg]; simp [hc]

/-! ### voting -/

/-- a vote is accepted only while the proposal is Active: stored, not cancelled, and the
    block within `[start + delay, start + delay + period)` -/
theorem vote_only_active {s s' : St} {c id : Nat} {v : Vote} {o : Out}
    (h : vote s c id v = some (s', o)) :
    ∃ p, s.get? id = some p ∧ p.cleared = false ∧ s.status id = .active ∧
      p.start + p.delay ≤ s.block ∧ s.block < p.start + p.delay + p.period := by
  obtain ⟨p, _, _, _, hst, hg, _⟩ := vote_spec h
  have hc := not_cleared_of_status hg (by rw [hst]; simp)
  have e := status_of_get hg
  simp only [hc, Bool.false_eq_true, if_false] at e
  rw [hst] at e
  obtain ⟨a, b⟩ := statusAt_active.1 e.symm
  exact ⟨p, hg, hc, hst, a, b⟩

/-- one vote per address per proposal: an accepted vote records the voter, and whatever
    happens afterwards (any history) a further vote of that address on that proposal fails -/
theorem vote_once {s s' : St} {c id : Nat} {v : Vote} {o : Out}
    (h : vote s c id v = some (s', o)) :
    (∃ p, s.get? id = some p ∧ c ∉ p.voters) ∧
    (∃ q, s'.get? id = some q ∧ c ∈ q.voters) ∧
    ∀ (ops : List Op) (v' : Vote), vote (run s' ops) c id v' = none := by
  obtain ⟨p, _, _, _, _, hg, hnv, _, _, rfl⟩ := vote_spec h
  have hq : (s.set id (voted p s.total v (s.energy c) c)).get? id
      = some (voted p s.total v (s.energy c) c) := get?_set_same _ hg
  have hin : c ∈ (voted p s.total v (s.energy c) c).voters := by
    rw [(voted_frozen p s.total v (s.energy c) c).2.2.2.2.2.2.2.2.2.1]; simp
  refine ⟨⟨p, hg, hnv⟩, ⟨_, hq, hin⟩, fun ops v' => ?_⟩
  obtain ⟨q', hg', hl, _⟩ := run_later ops hq
  cases hv : vote (run (s.set id (voted p s.total v (s.energy c) c)) ops) c id v' with
  | none => rfl
  | some r =>
    obtain ⟨s2, o2⟩ := r
    obtain ⟨p2, _, _, _, _, hg2, hnv2, _⟩ := vote_spec hv
    rw [hg'] at hg2
    simp only [Option.some.injEq] at hg2
    subst hg2
    exact absurd (hl.voters c hin) hnv2

/-- voting power is ⌊√energy⌋ (returned and added to the chosen tally only), the quorum
    grows by the energy itself, and the caller must have energy -/
theorem vote_power_quorum {s s' : St} {c id : Nat} {v : Vote} {o : Out}
    (h : vote s c id v = some (s', o)) :
    ∃ p q, s.get? id = some p ∧ s'.get? id = some q ∧ 0 < s.energy c ∧
      o.v1 * o.v1 ≤ s.energy c ∧ s.energy c < (o.v1 + 1) * (o.v1 + 1) ∧ o.v2 = s.energy c ∧
      q.quorum = p.quorum + s.energy c ∧
      q.up = p.up + (if v = .up then o.v1 else 0) ∧
      q.down = p.down + (if v = .down then o.v1 else 0) ∧
      q.veto = p.veto + (if v = .veto then o.v1 else 0) ∧
      q.abstain = p.abstain + (if v = .abstain then o.v1 else 0) := by
  obtain ⟨p, _, _, _, _, hg, _, he, rfl, rfl⟩ := vote_spec h
  refine ⟨p, _, hg, get?_set_same _ hg, he, Nat.sqrt_le _, Nat.lt_succ_sqrt _, rfl, ?_⟩
  unfold voted
  by_cases hq : p.quorum = 0 <;> cases v <;> simp [Proposal.addVote, hq]

/-- the total energy used for the quorum test is the fees collector's total at the moment of
    the first vote, and no later history (votes, total-energy changes, anything) moves it -/
theorem total_quorum_snapshot {s s' : St} {c id : Nat} {v : Vote} {o : Out}
    (h : vote s c id v = some (s', o)) :
    ∃ p q, s.get? id = some p ∧ s'.get? id = some q ∧
      q.totalQuorum = (if p.quorum = 0 then s.total else p.totalQuorum) ∧ q.quorum ≠ 0 ∧
      ∀ ops q', (run s' ops).get? id = some q' → q'.totalQuorum = q.totalQuorum := by
  obtain ⟨p, _, _, _, _, hg, _, he, _, rfl⟩ := vote_spec h
  obtain ⟨_, _, _, _, _, _, _, _, _, _, f11, f12⟩ := voted_frozen p s.total v (s.energy c) c
  have hq := get?_set_same (voted p s.total v (s.energy c) c) hg
  refine ⟨p, _, hg, hq, f12, by omega, fun ops q' hg' => ?_⟩
  obtain ⟨q2, hg2, hl, _⟩ := run_later ops hq
  rw [hg2] at hg'
  simp only [Option.some.injEq] at hg'
  subst hg'
  exact hl.snapshot (by omega)

/-! ### the fee escrow -/

/-- after every history the contract's fee-token balance is exactly the sum of the fees of
    the proposals that were neither cancelled nor withdrawn -/
theorem fee_escrow_inv (a b c d e f n funds : Nat) (ops : List Op) :
    (run (init a b c d e f n funds) ops).bal =
      ((run (init a b c d e f n funds) ops).props.map
        (fun p => if p.cleared || p.withdrawn then 0 else p.fee)).sum :=
  (run_inv ops (inv_init a b c d e f n funds)).escrow

/-- `propose` escrows exactly the configured fee, requires the minimum energy, freezes the
    current configuration in the proposal and hands out the next id -/
theorem propose_rules {s s' : St} {c fee : Nat} {o : Out} (h : propose s c fee = some (s', o)) :
    s.minEnergy ≤ s.energy c ∧ fee = s.minFee ∧ o.v1 = s.props.length + 1 ∧
    s'.bal = s.bal + fee ∧ s'.wallet c + fee = s.wallet c ∧
    s'.get? o.v1 = some (newProposal s c fee) ∧
    (newProposal s c fee).minQuorum = s.quorumPct ∧ (newProposal s c fee).delay = s.delay ∧
    (newProposal s c fee).period = s.period ∧ (newProposal s c fee).wpct = s.wpct ∧
    (newProposal s c fee).start = s.block := by
  obtain ⟨_, h2, _, h4, h5, rfl, rfl⟩ := propose_spec h
  refine ⟨h2, h5.symm, rfl, rfl, ?_, ?_, rfl, rfl, rfl, rfl, rfl⟩
  · simp only [upd_same]; omega
  · simp [St.get?]

/-- cancel: only the proposer, only while Pending; the whole fee goes back to the proposer
    and the proposal is gone (status None) -/
theorem cancel_rules {s s' : St} {c id : Nat} {o : Out} (h : cancel s c id = some (s', o)) :
    ∃ p, s.get? id = some p ∧ c = p.proposer ∧ s.status id = .pending ∧
      s.block < p.start + p.delay ∧
      o.v1 = p.fee ∧ s'.bal + p.fee = s.bal ∧ s'.wallet c = s.wallet c + p.fee ∧
      (∀ u, u ≠ c → s'.wallet u = s.wallet u) ∧ s'.burned = s.burned ∧
      s'.status id = .none := by
  obtain ⟨p, _, hst, hg, hc, hb, rfl, rfl⟩ := cancel_spec h
  have hcl := not_cleared_of_status hg (by rw [hst]; simp)
  have e := status_of_get hg
  simp only [hcl, Bool.false_eq_true, if_false] at e
  rw [hst] at e
  have hg0 : (refunded s p.proposer p.fee).get? id = some p := hg
  refine ⟨p, hg, hc, hst, statusAt_pending.1 e.symm, rfl, ?_, ?_, ?_, rfl, ?_⟩
  · simp only [set_bal, refunded]; omega
  · subst hc; simp [refunded]
  · intro u hu; subst hc; simp [refunded, upd_ne _ _ hu]
  · rw [status_of_get (get?_set_same _ hg0)]; simp

/-- withdrawDeposit after success or defeat: proposer only, not withdrawn before, the whole
    fee goes back to the proposer, nothing is burned -/
theorem full_refund {s s' : St} {c id : Nat} {o : Out} (h : withdraw s c id = some (s', o))
    (hst : s.status id = .succeeded ∨ s.status id = .defeated) :
    ∃ p, s.get? id = some p ∧ c = p.proposer ∧ p.withdrawn = false ∧
      o.v1 = p.fee ∧ o.v2 = 0 ∧ s'.bal + p.fee = s.bal ∧ s'.wallet c = s.wallet c + p.fee ∧
      (∀ u, u ≠ c → s'.wallet u = s.wallet u) ∧ s'.burned = s.burned := by
  obtain ⟨p, _, hg, hw, hcase⟩ := withdraw_spec h
  rcases hcase with ⟨_, hc, hb, rfl, rfl⟩ | ⟨hv, _⟩
  · refine ⟨p, hg, hc, hw, rfl, rfl, ?_, ?_, ?_, rfl⟩
    · simp only [set_bal, refunded]; omega
    · subst hc; simp [refunded]
    · intro u hu; subst hc; simp [refunded, upd_ne _ _ hu]
  · rcases hst with h1 | h1 <;> rw [h1] at hv <;> simp at hv

/-- withdrawDeposit after a veto: anyone may trigger it, once; the proposer receives
    `⌊pct·fee/10000⌋` and the rest of the fee is burned -/
theorem veto_split {s s' : St} {c id : Nat} {o : Out} (h : withdraw s c id = some (s', o))
    (hst : s.status id = .vetoed) :
    ∃ p, s.get? id = some p ∧ p.withdrawn = false ∧
      o.v1 = p.wpct * p.fee / 10000 ∧ o.v2 = p.fee - o.v1 ∧ o.v1 ≤ p.fee ∧
      s'.bal + p.fee = s.bal ∧ s'.burned = s.burned + o.v2 ∧
      s'.wallet p.proposer = s.wallet p.proposer + o.v1 ∧
      (∀ u, u ≠ p.proposer → s'.wallet u = s.wallet u) := by
  obtain ⟨p, _, hg, hw, hcase⟩ := withdraw_spec h
  have hF : FULL = 10000 := rfl
  rcases hcase with ⟨hs, _⟩ | ⟨_, hr, hb1, hb2, rfl, rfl⟩
  · rcases hs with h1 | h1 <;> rw [h1] at hst <;> simp at hst
  · rw [hF] at *
    refine ⟨p, hg, hw, rfl, rfl, hr, ?_, rfl, ?_, ?_⟩
    · simp only [set_bal, refunded, burnedSt]; omega
    · simp [refunded, burnedSt]
    · intro u hu; simp [refunded, burnedSt, upd_ne _ _ hu]

/-- withdrawDeposit is only possible once the voting period is over, and marks the fee as
    withdrawn -/
theorem withdraw_rules {s s' : St} {c id : Nat} {o : Out} (h : withdraw s c id = some (s', o)) :
    ∃ p q, s.get? id = some p ∧ p.cleared = false ∧ p.withdrawn = false ∧
      p.start + p.delay + p.period ≤ s.block ∧
      (s.status id = .succeeded ∨ s.status id = .defeated ∨ s.status id = .vetoed) ∧
      s'.get? id = some q ∧ q.withdrawn = true := by
  obtain ⟨p, _, hg, hw, hcase⟩ := withdraw_spec h
  have hst : s.status id = .succeeded ∨ s.status id = .defeated ∨ s.status id = .vetoed := by
    rcases hcase with ⟨h1 | h1, _⟩ | ⟨h1, _⟩
    · exact .inl h1
    · exact .inr (.inl h1)
    · exact .inr (.inr h1)
  have hc := not_cleared_of_status hg (by rcases hst with h1 | h1 | h1 <;> rw [h1] <;> simp)
  have e := status_of_get hg
  simp only [hc, Bool.false_eq_true, if_false] at e
  have hend := statusAt_ended.1 (by rw [← e]; exact hst)
  rcases hcase with ⟨_, _, _, _, rfl⟩ | ⟨_, _, _, _, _, rfl⟩
  · exact ⟨p, _, hg, hc, hw, hend, hst, get?_set_same _ (by exact hg), rfl⟩
  · exact ⟨p, _, hg, hc, hw, hend, hst, get?_set_same _ (by exact hg), rfl⟩

/-- the fee leaves escrow at most once: after a successful cancel or withdrawDeposit of a
    proposal, no history whatsoever leads to a state in which cancel or withdrawDeposit of
    that proposal succeeds again, for any caller -/
theorem fee_leaves_once {s s' : St} {c id : Nat} {o : Out}
    (h : cancel s c id = some (s', o) ∨ withdraw s c id = some (s', o))
    (ops : List Op) (c' : Nat) :
    cancel (run s' ops) c' id = none ∧ withdraw (run s' ops) c' id = none := by
  -- after the call the stored proposal is cleared, or withdrawn with its voting period over
  have key : ∃ q, s'.get? id = some q ∧
      (q.cleared = true ∨ (q.withdrawn = true ∧ q.start + q.delay + q.period ≤ s'.block)) := by
    rcases h with h | h
    · obtain ⟨p, _, _, hg, _, _, _, rfl⟩ := cancel_spec h
      exact ⟨_, get?_set_same _ (by exact hg), .inl rfl⟩
    · obtain ⟨p, q, hg, _, _, hend, _, hq, hw⟩ := withdraw_rules h
      obtain ⟨_, _, hg2, _, hcase⟩ := withdraw_spec h
      rw [hg] at hg2
      simp only [Option.some.injEq] at hg2
      subst hg2
      rcases hcase with ⟨_, _, _, _, rfl⟩ | ⟨_, _, _, _, _, rfl⟩
      · refine ⟨q, hq, .inr ⟨hw, ?_⟩⟩
        rw [get?_set_same _ (by exact hg)] at hq
        simp only [Option.some.injEq] at hq
        subst hq
        exact hend
      · refine ⟨q, hq, .inr ⟨hw, ?_⟩⟩
        rw [get?_set_same _ (by exact hg)] at hq
        simp only [Option.some.injEq] at hq
        subst hq
        exact hend
  obtain ⟨q, hq, hflag⟩ := key
  obtain ⟨q', hg', hl, hblk⟩ := run_later ops hq
  -- in the later state the proposal is still cleared / withdrawn-and-over
  have hst' : (run s' ops).status id = if q'.cleared then .none else q'.statusAt (run s' ops).block :=
    status_of_get hg'
  constructor
  · cases hc : cancel (run s' ops) c' id with
    | none => rfl
    | some r =>
      exfalso
      obtain ⟨s2, o2⟩ := r
      obtain ⟨p2, _, hpend, hg2, _⟩ := cancel_spec hc
      rw [hst'] at hpend
      rcases hflag with hcl | ⟨hw, hend⟩
      · simp [hl.cleared hcl] at hpend
      · cases hc2 : q'.cleared with
        | true => simp [hc2] at hpend
        | false =>
          simp only [hc2, Bool.false_eq_true, if_false] at hpend
          have := statusAt_pending.1 hpend
          rw [hl.start, hl.delay] at this
          omega
  · cases hc : withdraw (run s' ops) c' id with
    | none => rfl
    | some r =>
      exfalso
      obtain ⟨s2, o2⟩ := r
      obtain ⟨p2, _, hg2, hcl2, hw2, _, hst2, _⟩ := withdraw_rules hc
      rw [hg'] at hg2
      simp only [Option.some.injEq] at hg2
      subst hg2
      rcases hflag with hcl | ⟨hw, _⟩
      · rw [hl.cleared hcl] at hcl2; simp at hcl2
      · rw [hl.withdrawn hw] at hw2; simp at hw2

/-- configuration changes, energy updates and the passage of time never touch a stored
    proposal: its frozen parameters, tallies and flags stay as they are -/
theorem config_change_keeps_proposals {s s' : St} {op : Op} {o : Out}
    (h : step s op = some (s', o))
    (hop : (∃ x, op = .cfg x) ∨ (∃ u e, op = .setEnergy u e) ∨ (∃ x, op = .setTotal x) ∨
           (∃ u, op = .claim u) ∨ (∃ b, op = .advance b)) :
    s'.props = s.props ∧ s'.bal = s.bal ∧ s'.burned = s.burned ∧ s'.wallet = s.wallet := by
  rcases step_cases h with ⟨c, fee, e, _⟩ | ⟨c, id, v, e, _⟩ | ⟨c, id, e, _⟩ | ⟨c, id, e, _⟩ |
      ⟨h1, h2, h3, h4, _⟩
  · subst e; simp at hop
  · subst e; simp at hop
  · subst e; simp at hop
  · subst e; simp at hop
  · exact ⟨h1, h2, h3, h4⟩

/-- every stored proposal keeps its proposer, fee and frozen configuration for ever; flags,
    voters and quorum only move forward -/
theorem proposal_frozen (s : St) (ops : List Op) (id : Nat) (p : Proposal)
    (h : s.get? id = some p) :
    ∃ p', (run s ops).get? id = some p' ∧ p'.proposer = p.proposer ∧ p'.fee = p.fee ∧
      p'.minQuorum = p.minQuorum ∧ p'.delay = p.delay ∧ p'.period = p.period ∧
      p'.wpct = p.wpct ∧ p'.start = p.start ∧
      (p.cleared = true → p'.cleared = true) ∧ (p.withdrawn = true → p'.withdrawn = true) := by
  obtain ⟨p', hg, hl, _⟩ := run_later ops h
  exact ⟨p', hg, hl.proposer, hl.fee, hl.minQuorum, hl.delay, hl.period, hl.wpct, hl.start,
    hl.cleared, hl.withdrawn⟩

/-! ### atomicity, non-vacuity -/

/-- a failed transaction leaves the state untouched (atomicity as modelled) -/
theorem failed_tx_no_effect (s : St) (op : Op) (h : step s op = none) : run s [op] = s := by
  simp [run, h]

/-- a world used by the examples: fee 3·10^24, quorum 40 %, delay 2, period 14400, 50 % refund
    on veto, four users -/
def exInit : St := init 4 3000000000000000000000000 4000 2 14400 5000 4 10000000000000000000000000

/-- non-vacuity: three proposals run to the three final statuses — one succeeds with the
    quorum exactly met and a veto of exactly a third, one is vetoed (third + 1) and split
    50/50 on a third party's request, one is defeated with up-votes exactly half; a fourth is
    cancelled while pending.  Every fee has left escrow exactly once. -/
example :
    let s := run exInit
      [.setEnergy 1 36, .setEnergy 2 9, .setEnergy 3 5, .setEnergy 4 16,
       .propose 1 3000000000000000000000000, .propose 4 3000000000000000000000000,
       .propose 1 3000000000000000000000000, .propose 2 3000000000000000000000000,
       .cancel 2 4, .advance 2, .setTotal 125,
       .vote 1 1 .up, .vote 2 1 .veto, .vote 3 1 .abstain,       -- up 6 > ⌊11/2⌋, veto 3 = ⌊11/3⌋, quorum 50 = 40 % of 125
       .vote 1 2 .up, .vote 4 2 .veto,                            -- veto 4 = ⌊10/3⌋ + 1
       .vote 2 3 .up, .vote 4 3 .down,                            -- up 3 = ⌊7/2⌋
       .setTotal 1000000, .advance 14402,
       .withdraw 1 1, .withdraw 3 2, .withdraw 1 3]
    s.status 1 = .succeeded ∧ s.status 2 = .vetoed ∧ s.status 3 = .defeated ∧ s.status 4 = .none ∧
    s.bal = 0 ∧ s.burned = 1500000000000000000000000 ∧
    s.wallet 4 = 8500000000000000000000000 ∧ s.wallet 1 = 10000000000000000000000000 := by
  decide +kernel

/-- non-vacuity of the "once" clauses on the same world: second vote, second withdraw, third
    party's cancel and withdraw all fail -/
example :
    let s := run exInit
      [.setEnergy 1 16, .setEnergy 2 4, .propose 1 3000000000000000000000000, .advance 2,
       .vote 1 1 .up, .advance 14402]
    (vote s 2 1 .up).isSome = false ∧ (vote (run exInit [.setEnergy 1 16, .propose 1 3000000000000000000000000,
       .advance 2, .vote 1 1 .up]) 1 1 .down).isSome = false ∧ (withdraw s 2 1).isSome = false ∧
    (cancel s 1 1).isSome = false ∧ (withdraw s 1 1).isSome = true ∧
    (withdraw (run s [.withdraw 1 1]) 1 1).isSome = false := by
  decide +kernel

end Mx.C18
