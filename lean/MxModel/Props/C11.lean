/-
  C11 — Boosted rewards: per-week formula, single payment, bounded by the week's pool, undistributed
  collected once (dex/farm, dex/farm-with-locked-rewards; farm-staking has its own file).

  Model: Core/Farm.lean (`boostedRewards` = `FarmBoostedYieldsWrapper::get_user_rewards_for_week`,
  `boostedAmount` = the formula, `BCfg` = the 5-slot factors ring, `collectUndistributed`) on top of
  the shared Core/Weekly.lean (`claimMulti`).  Ghosts: `paidW w` (Σ boosted paid out of week w's
  pool), `cutW w` (Σ boosted cut accumulated into it), `collW w` (moved to undistributed).
-/
import MxModel.Lemmas.FarmArith
import MxModel.Lemmas.FarmBoost

namespace Mx.C11
open Mx Mx.Farm

/-- **boosted_formula.**  What `get_user_rewards_for_week` pays for one week: nothing, or exactly
    `min ⌊maxF·R·f/F⌋ ⌊(⌊R·cE·e/E⌋ + ⌊R·cF·f/F⌋)/(cE+cF)⌋` of the week's frozen pool `R`, with `f` the
    user's total farm position, `F` the farm supply recorded for that week, `e`/`E` the user's / the total
    energy of that week and the factors in force for that week — only when `E ≠ 0`, `F ≠ 0`,
    `e ≥ minE`, `f ≥ minF`. -/
theorem boosted_formula {mem : BCfg} {f : Nat} {g g' : Weekly.St} {c c' : BSt} {week e E : Nat}
    {r : List (Weekly.Tok × Nat)} (h : boostedRewards mem f g c week e E = some (g', c', r)) :
    r = [] ∨ ∃ fa tok R, mem.factorsForWeek week = some fa ∧ E ≠ 0 ∧ c.farmSupplyWeek week ≠ 0 ∧
      fa.minE ≤ e ∧ fa.minF ≤ f ∧ g'.totalRewards week = [(tok, R)] ∧
      r = [(tok, min (fa.maxF * R * f / c.farmSupplyWeek week)
        ((R * fa.cE * e / E + R * fa.cF * f / c.farmSupplyWeek week) / (fa.cE + fa.cF)))] := by
  rcases (boostedRewards_spec h).1 with h0 | ⟨fa, tok, R, h1, h2, h3, h4, h5, _, _, h8, _, _, h11, _⟩
  · exact Or.inl h0
  · exact Or.inr ⟨fa, tok, R, h1, h2, h3, h4, h5, h8, h11⟩

/-- nothing is paid (and nothing is touched) when the week has no energy or no recorded farm supply,
    or when the user is below the minimum energy / minimum farm position of that week's factors -/
theorem boosted_zero_cases {mem : BCfg} {f : Nat} {g g' : Weekly.St} {c c' : BSt} {week e E : Nat}
    {r : List (Weekly.Tok × Nat)} (h : boostedRewards mem f g c week e E = some (g', c', r)) :
    ((E = 0 ∨ c.farmSupplyWeek week = 0) → r = [] ∧ g' = g ∧ c' = c) ∧
    (∀ fa, mem.factorsForWeek week = some fa → (e < fa.minE ∨ f < fa.minF) → r = [] ∧ g' = g ∧ c' = c) :=
  ⟨fun hz => boostedRewards_zero h hz, fun _ hfa hm => boostedRewards_below_min h hfa hm⟩

/-- **paid_once.**  After a successful boosted claim of `u`, any further claim of `u` in the same week
    (from any state that kept `u`'s claim progress) pays nothing and leaves the pools alone.
    (Since the repair of F6 also when the first claim ran without a boosted-yields config: the
    hypothesis `s.b.cfg ≠ none` of the earlier statement is no longer needed.) -/
theorem paid_once {s s1 s2 s3 : St} {u r1 r2 : Nat} (h1 : claimBoostedYields s u = some (s1, r1))
    (hprog : s2.w.progress u = s1.w.progress u) (hweek : s2.week = s.week)
    (h2 : claimBoostedYields s2 u = some (s3, r2)) : r2 = 0 ∧ s3.b = s2.b :=
  Farm.paid_once h1 hprog hweek h2

/-- **week_pool_bound (one payment).**  A payment for a week is bounded by what the week's pool still
    holds, and is booked against it: the week's `paidW` grows by exactly the payment. -/
theorem week_pool_bound_step {mem : BCfg} {f : Nat} {g g' : Weekly.St} {c c' : BSt} {week e E : Nat}
    {r : List (Weekly.Tok × Nat)} (h : boostedRewards mem f g c week e E = some (g', c', r)) :
    sumRewards r = c'.paidW week - c.paidW week ∧ c.paidW week ≤ c'.paidW week ∧
    sumRewards r ≤ c.accum week + c.remaining week ∧
    (∀ w, w ≠ week → c'.accum w = c.accum w ∧ c'.remaining w = c.remaining w ∧ c'.paidW w = c.paidW w) := by
  obtain ⟨_, h1, h2, h3, _, _, h6⟩ := boostedRewards_spec h
  exact ⟨h1, h2, h3, h6⟩

/-- **week_pool_bound (one claim).**  A whole boosted claim conserves, for every week,
    `accumulated + remaining + paid-so-far` (given the pool invariant `RemInv`: a not-yet-frozen week
    inside the window has nothing in `remaining`), touches only the last four completed weeks, and
    returns exactly what the pools lost. -/
theorem week_pool_bound_claim {s s' : St} {u r : Nat} (h : claimBoostedYields s u = some (s', r))
    (hI : RemInv s) :
    RemInv s' ∧ (∀ w, s'.b.accum w + s'.b.remaining w + s'.b.paidW w =
                      s.b.accum w + s.b.remaining w + s.b.paidW w) ∧
    (∀ W, s.week = some W → ∀ w, (w + 4 < W ∨ W ≤ w) →
        s'.b.accum w = s.b.accum w ∧ s'.b.remaining w = s.b.remaining w ∧ s'.b.paidW w = s.b.paidW w) ∧
    (∀ W, s.week = some W →
        r = ((List.range 4).map fun i => s'.b.paidW (W - 4 + i) - s.b.paidW (W - 4 + i)).sum) := by
  obtain ⟨hR, hP⟩ := claimBoostedYields_remInv h hI
  have e := claimBoostedYields_spec h
  exact ⟨hR, hP.cons, e.outside, e.result⟩

/-- **claim_uses_old_position.**  The boosted claim depends on the user's farm position only through
    `userTotal u` as it is when the claim runs — and every position-changing endpoint runs it before
    touching `userTotal` (see `enterCore`, `claimCore`, `exitFarm`, `mergeFarmTokens` in Core/Farm.lean:
    `claimBoostedYields` / `claimOnlyBoostedPayment` precede `checkAndUpdate`, `increaseUser`,
    `decreaseOwner`). -/
theorem claim_uses_old_position (s : St) (u : Nat) (t : Nat → Nat) (ht : t u = s.userTotal u) :
    claimBoostedYields { s with userTotal := t } u =
      (claimBoostedYields s u).map (fun r => ({ r.1 with userTotal := t }, r.2)) :=
  claimBoostedYields_userTotal s u t ht

/-- **undistributed_once.**  `collectUndistributedBoostedRewards` in week `W > 5` moves exactly the
    remaining pools of the weeks `lastCollect+1 … W−5` to the undistributed counter, empties them,
    leaves every week inside the claim window (and everything else) alone, and records `W−5`; a second
    call in the same week moves nothing. -/
theorem undistributed_once {s s' : St} {c : Nat} (h : collectUndistributed s c = some s') :
    ∃ W, s.week = some W ∧ 5 < W ∧
      (s.lastCollect + 1 ≤ W - 5 →
        s'.lastCollect = W - 5 ∧
        (∀ w, s.lastCollect < w → w ≤ W - 5 → s'.b.remaining w = 0 ∧ s'.b.collW w = s.b.collW w + s.b.remaining w) ∧
        (∀ w, (w ≤ s.lastCollect ∨ W - 5 < w) → s'.b.remaining w = s.b.remaining w ∧ s'.b.collW w = s.b.collW w) ∧
        s'.undist = s.undist + ((List.range (W - 5 - s.lastCollect)).map
            fun i => s.b.remaining (s.lastCollect + 1 + i)).sum ∧
        s'.b.accum = s.b.accum ∧ s'.b.paidW = s.b.paidW ∧ s'.b.cutW = s.b.cutW) ∧
      (W - 5 < s.lastCollect + 1 → s' = s) := by
  simp only [collectUndistributed, Option.bind_eq_bind, Option.bind_eq_some_iff, req_eq_some,
    Option.pure_def] at h
  obtain ⟨_, _, W, hW, _, hgt, h⟩ := h
  have hU : Weekly.USER_MAX_CLAIM_WEEKS = 4 := rfl
  rw [hU] at hgt h
  refine ⟨W, hW, by omega, ?_, ?_⟩
  · intro hle
    have hn : ¬ (W - (4 + 1) < s.lastCollect + 1) := by omega
    simp only [hn, if_false, Option.some.injEq] at h
    subst h
    have hs := collectWeeks_spec (W - (4 + 1) + 1 - (s.lastCollect + 1)) s.b s.undist (s.lastCollect + 1)
    obtain ⟨h1, h2, h3, _, _, h6, h7, h8⟩ := hs
    have e1 : W - (4 + 1) + 1 - (s.lastCollect + 1) = W - 5 - s.lastCollect := by omega
    refine ⟨by show W - (4 + 1) = W - 5; omega, ?_, ?_, ?_, h3, h7, h6⟩
    · intro w hw1 hw2
      exact h1 w (by omega) (by omega)
    · intro w hw
      exact h2 w (by omega)
    · show (collectWeeks s.b s.undist (s.lastCollect + 1) _).2 = _
      rw [h8, e1]
  · intro hlt
    have hn : W - (4 + 1) < s.lastCollect + 1 := by omega
    simp only [hn, if_true, Option.some.injEq] at h
    exact h.symm

/-- **factors_for_week.**  The 5-slot ring returns, for every week still inside the claim window, the
    factors that were in force in that week: a later update (time passing, with or without a new
    setting for the current week) does not change them, and the weeks that passed without any setting
    carry the previously latest factors. -/
theorem factors_for_week {c c' : BCfg} {W w : Nat} {new : Option Factors} (hw : WF c)
    (h : c.update W new = some c') (h2 : W < w + 5) :
    (w < c.lastUpdateWeek → c'.factorsForWeek w = c.factorsForWeek w) ∧
    (c.lastUpdateWeek ≤ w → w < W → c'.factorsForWeek w = some c.latest) ∧
    (c'.latest = new.getD c.latest) ∧ WF c' ∧ c'.lastUpdateWeek = W := by
  refine ⟨fun h1 => factorsForWeek_update_old hw h h1 h2,
    fun h1 h3 => factorsForWeek_update_gap hw h h1 h3 h2, ?_, (BCfg.update_wf hw h).1, (BCfg.update_wf hw h).2⟩
  cases new with
  | none => exact update_none_latest hw h
  | some f => exact update_latest hw h

/-- the very first configuration covers the four (still claimable) weeks before it -/
theorem factors_first_config (W w : Nat) (f : Factors) (h1 : w < W) (h2 : W < w + 5) :
    (BCfg.new W f).factorsForWeek w = some f ∧ WF (BCfg.new W f) :=
  ⟨factorsForWeek_new W w f h1 h2, BCfg.new_wf W f⟩

/-- non-vacuity: the corpus history f1 — the week-1 pool of 2500 is frozen, paid once, nothing remains -/
example :
    let s := run (init .mint false 1000000000000 1000 true [1, 2] 0)
      [.setFactors OWNER ⟨10, 3, 2, 1, 1⟩, .setPct OWNER 2500, .setEnergy 1 1000000 0 1000,
       .enter 1 none 100000000 [], .advance 10 6, .claim 1 none [(1, 100000000)], .advance 10 7,
       .claimBoosted 1 none, .claimBoosted 1 none]
    s.b.cutW 1 = 2500 ∧ s.b.paidW 1 = 2500 ∧ s.b.remaining 1 = 0 ∧ s.b.accum 1 = 0 ∧ s.paidBoosted = 2500 := by
  decide

end Mx.C11
