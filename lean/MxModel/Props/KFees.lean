/-
  KFees — the fees-collector model (`Core/FeesCollector.lean`: `accumulateAdditional`, `deposit`)
  computes what the SOURCE of `energy-integration/fees-collector/src/{additional_locked_tokens.rs,
  fees_accumulation.rs}` computes.

  `Gen/KFees.lean` is regenerated on every run by `bin/gen-kernels` (group `Fees`):

    * `accumulate_additional_locked_tokens`   whole function; storage cells read are inputs, the two
      cells written (`accumulatedFees(week − 1, locked token)`, `lastLockedTokenAddWeek`) are outputs
    * `additional_tokens_week_amount`         its middle part: WHICH week is credited and HOW MUCH
      (the storage key of an update is not visible in the whole-function translation)
    * `deposit_accumulate`                    `depositSwapFees` from the nonce check to the accumulation

  Property C10 (claimers get their energy share once, never more than collected) rests on what is
  added to `accumulatedFees`: exactly the deposited amount, exactly `perBlock · 100 800` once per week,
  credited to the week BEFORE the current one.
-/
import MxModel.Gen.KFees
import MxModel.Core.FeesCollector
import MxModel.Props.KWeek
import MxModel.Lemmas.KTactic

namespace Mx.KFees
open Mx Mx.Gen Mx.Fees

/-- the week credited and the amount: `(perBlock · 100 800, current_week − 1)`; the `usize`
    subtraction aborts for week 0 (weeks start at 1) -/
theorem additional_tokens_week_amount_eq (W perBlock : Nat) :
    KFees.additional_tokens_week_amount W perBlock =
      if W = 0 then none else some (perBlock * BLOCKS_IN_WEEK, W - 1) := by
  have hB : BLOCKS_IN_WEEK = 100800 := rfl
  k_defs [KFees.additional_tokens_week_amount, hB]
  k_solve

/-- source `accumulate_additional_locked_tokens` on the cells of a model state IS the model's
    `accumulateAdditional` at the current week: nothing when this week was already credited,
    otherwise `accumulatedFees(W − 1, locked) += perBlock · 100 800` and `lastLockedTokenAddWeek := W`.
    Result order (accumulatedFees(W−1, locked), lastLockedTokenAddWeek) -/
theorem accumulate_additional_locked_tokens_eq (s : St) (W : Nat) (hW : s.week = some W)
    (tokId : Nat) :
    KFees.accumulate_additional_locked_tokens (s.a.accumulated (W - 1) lockedTok) s.epoch s.firstWeek
        s.lastAddWeek tokId s.perBlock =
      some ((accumulateAdditional s W).a.accumulated (W - 1) lockedTok,
            (accumulateAdditional s W).lastAddWeek) := by
  have hB : BLOCKS_IN_WEEK = 100800 := rfl
  have hW' : Weekly.weekOf s.epoch s.firstWeek = some W := hW
  have h1 : 1 ≤ W := by
    simp only [Weekly.weekOf, Option.bind_eq_bind, Option.bind_eq_some_iff, Option.pure_def,
      Option.some.injEq] at hW'
    obtain ⟨_, _, rfl⟩ := hW'
    exact Nat.le_add_left 1 _
  have hcell : ∀ v, upd2 s.a.accumulated (W - 1) lockedTok v (W - 1) lockedTok = v := by
    intro v; simp [upd2]
  k_defs [KFees.accumulate_additional_locked_tokens, Mx.KWeek.get_current_week_eq, hW',
    accumulateAdditional, hB]
  repeat' (first | k_unfold | split)
  all_goals try simp only [hcell]
  all_goals k_close

/-- outside the credited cell the model's `accumulateAdditional` changes nothing -/
theorem accumulateAdditional_frame (s : St) (W w : Nat) (t : Weekly.Tok)
    (h : ¬ (w = W - 1 ∧ t = lockedTok)) :
    (accumulateAdditional s W).a.accumulated w t = s.a.accumulated w t := by
  simp only [accumulateAdditional]
  split
  · rfl
  · simp only [upd2, if_neg h]

/-- the source aborts exactly when the week clock has not started -/
theorem accumulate_additional_locked_tokens_before_first_week (acc epoch first last tok perBlock : Nat)
    (h : epoch < first) :
    KFees.accumulate_additional_locked_tokens acc epoch first last tok perBlock = none := by
  k_defs [KFees.accumulate_additional_locked_tokens, Mx.KWeek.get_current_week_eq, Weekly.weekOf]
  k_solve

/-- the accumulation of `depositSwapFees`: a payment with a nonce must be the locked token
    (it is burned — not part of the translation), and in both cases exactly the paid amount is
    added to `accumulatedFees(current week, token)` -/
theorem deposit_accumulate_eq (acc lockedId amount tok nonce : Nat) :
    KFees.deposit_accumulate acc lockedId amount tok nonce =
      if 0 < nonce ∧ tok ≠ lockedId then none else some (acc + amount) := by
  k_defs [KFees.deposit_accumulate]
  k_solve

/-- a successful model `deposit` is a successful run of the source fragment on the cell
    `accumulatedFees(W, tok)`: same new value -/
theorem deposit_runs_source {s s' : St} {caller nonce amount W : Nat} {tok : Weekly.Tok} {o : Out}
    (h : deposit s caller tok nonce amount = some (s', o)) (hW : s.week = some W) :
    KFees.deposit_accumulate (s.a.accumulated W tok) lockedTok amount tok nonce =
      some (s'.a.accumulated W tok) := by
  simp only [deposit, hW, Option.bind_eq_bind, Option.bind_eq_some_iff, req_eq_some,
    Option.pure_def, Option.some.injEq, Prod.mk.injEq, Option.bind_some] at h
  obtain ⟨_, _, _, _, _, _, _, hn, hs, _⟩ := h
  rw [deposit_accumulate_eq, ← hs]
  have hcell : upd2 s.a.accumulated W tok (s.a.accumulated W tok + amount) W tok =
      s.a.accumulated W tok + amount := by simp [upd2]
  simp only [hcell]
  rw [if_neg]
  intro hc
  exact hc.2 (hn hc.1)

example : KFees.accumulate_additional_locked_tokens 50 24 10 2 0 3 = some (302450, 3) := by decide
example : KFees.accumulate_additional_locked_tokens 50 24 10 3 0 3 = some (50, 3) := by decide
example : KFees.deposit_accumulate 10 0 5 7 1 = none := by decide
example : KFees.deposit_accumulate 10 0 5 0 1 = some 15 := by decide
example : KFees.deposit_accumulate 10 0 5 7 0 = some 15 := by decide

end Mx.KFees
