/-
  C20 (farm clause: dex/farm and dex/farm-with-locked-rewards) — quotes equal execution:
  `calculateRewardsForGivenPosition(user, amount, attributes)` versus `claimRewards` (and
  `exitFarm` / `compoundRewards`, which pay the same reward), in the same state.

  Model: Core/Farm.lean — the view is `calcRewards s user amount rpsTok : Option Nat` (of the
  attributes only the token's reward index matters: `FarmTokenAttributes::into_part` keeps it), the
  operations are `claimRewards`, `claimRewardsOnBehalf`, `compoundRewards`, `exitFarm`
  (`claimCore` is the common body of the first three).  `Out.rew` is the reward payment,
  `Out.base + Out.boosted` its ghost split.

  * The theorems hold for ANY number of payments: with several payments the operation pays the
    quote of the FIRST payment (the others are merged into the new token without being paid), so
    the single-payment claim of the property is the case `rest = []`.
  * `user` of the view = the address the operation claims boosted rewards for (`orig`): the caller
    itself, the original caller passed by a whitelisted contract, or the recorded owner
    (`claimRewardsOnBehalf`).
  * The model's view has no "caller must be the contract itself" guard (`require_queried` of the
    Rust view is not modelled: the view is only ever evaluated as a VM query), so there is no
    `reward_view_query_only` here.
  Only property theorems live here; lemmas are in Lemmas/FarmView.lean.
-/
import MxModel.Lemmas.FarmView

namespace Mx.C20Farm
open Mx.Farm

/-- **exec_implies_quote** (`claimRewards` by the user itself).  A claim never succeeds where its
    quote refuses, and what it pays is the quote: if `claimRewards` with first payment `(n, a)` goes
    through, the view asked for `(user, a, attributes of n)` in that same state answers exactly the
    reward paid (base + boosted). -/
theorem exec_implies_quote {s s' : St} {user n a : Nat} {rest : List (Nat × Nat)} {att : Attr} {o : Out}
    (hat : s.attrs n = some att)
    (hx : claimRewards s user none ((n, a) :: rest) = some (s', o)) :
    calcRewards s user a att.rps = some o.rew ∧ o.rew = o.base + o.boosted := by
  simp only [claimRewards, origCaller, Option.bind_eq_bind, Option.bind_some] at hx
  obtain ⟨att', s1, c1, s2, boosted, hat', hg, hb, h1, h2, h3⟩ := claimCore_reward hx
  rw [hat] at hat'
  simp only [Option.some.injEq] at hat'
  subst hat'
  exact ⟨calcRewards_eq_some.mpr ⟨s1, c1, s2, boosted, hg, hb, h3⟩, by rw [h3, h1, h2]⟩

/-- **quote_eq_exec** (`calculateRewardsForGivenPosition` versus `claimRewards`).  If the view
    returns `q` for `(user, a, attributes of position n)`, a successful `claimRewards` of `a` of
    position `n` by that user in the same state pays exactly `q` in rewards — base plus boosted. -/
theorem quote_eq_exec {s s' : St} {user n a q : Nat} {rest : List (Nat × Nat)} {att : Attr} {o : Out}
    (hat : s.attrs n = some att)
    (hq : calcRewards s user a att.rps = some q)
    (hx : claimRewards s user none ((n, a) :: rest) = some (s', o)) :
    o.rew = q ∧ o.base + o.boosted = q := by
  obtain ⟨h1, h2⟩ := exec_implies_quote hat hx
  rw [hq] at h1
  simp only [Option.some.injEq] at h1
  exact ⟨h1.symm, by rw [← h2]; exact h1.symm⟩

/-- the same for every way `claim_rewards_base` / `compound_rewards_base` is reached
    (`claimRewards` through a whitelisted contract passing the original caller,
    `claimRewardsOnBehalf`, `compoundRewards`): the quote for `orig` — the address whose boosted
    rewards are claimed — is what is paid -/
theorem quote_eq_exec_core {s s' : St} {caller orig n a : Nat} {rest : List (Nat × Nat)} {cmp : Bool}
    {att : Attr} {o : Out} (hat : s.attrs n = some att)
    (hx : claimCore s caller orig ((n, a) :: rest) cmp = some (s', o)) :
    calcRewards s orig a att.rps = some o.rew := by
  obtain ⟨att', s1, c1, s2, boosted, hat', hg, hb, _, _, h3⟩ := claimCore_reward hx
  rw [hat] at hat'
  simp only [Option.some.injEq] at hat'
  subst hat'
  exact calcRewards_eq_some.mpr ⟨s1, c1, s2, boosted, hg, hb, h3⟩

/-- `claimRewards` with an original caller passed by a whitelisted contract -/
theorem quote_eq_exec_orig {s s' : St} {caller orig n a : Nat} {rest : List (Nat × Nat)}
    {att : Attr} {o : Out} (hat : s.attrs n = some att)
    (hx : claimRewards s caller (some orig) ((n, a) :: rest) = some (s', o)) :
    calcRewards s orig a att.rps = some o.rew := by
  simp only [claimRewards, origCaller, Option.bind_eq_bind, Option.bind_eq_some_iff, req_eq_some,
    Option.pure_def, Option.some.injEq] at hx
  obtain ⟨_, ⟨_, _, rfl⟩, hx⟩ := hx
  exact quote_eq_exec_core hat hx

/-- `claimRewardsOnBehalf`: the quote for the recorded owner of the payments -/
theorem quote_eq_exec_on_behalf {s s' : St} {caller n a : Nat} {rest : List (Nat × Nat)}
    {att : Attr} {o : Out} (hat : s.attrs n = some att)
    (hx : claimRewardsOnBehalf s caller ((n, a) :: rest) = some (s', o)) :
    ∃ user, claimOwner s ((n, a) :: rest) = some user ∧ calcRewards s user a att.rps = some o.rew := by
  simp only [claimRewardsOnBehalf, Option.bind_eq_bind, Option.bind_eq_some_iff, req_eq_some] at hx
  obtain ⟨_, _, user, hu, _, _, hx⟩ := hx
  exact ⟨user, hu, quote_eq_exec_core hat hx⟩

/-- `compoundRewards` (dex/farm with farming token = reward token) compounds exactly the quote -/
theorem quote_eq_exec_compound {s s' : St} {user n a : Nat} {rest : List (Nat × Nat)}
    {att : Attr} {o : Out} (hat : s.attrs n = some att)
    (hx : compoundRewards s user none ((n, a) :: rest) = some (s', o)) :
    calcRewards s user a att.rps = some o.rew := by
  simp only [compoundRewards, origCaller, Option.bind_eq_bind, Option.bind_eq_some_iff, req_eq_some,
    Option.some.injEq] at hx
  obtain ⟨_, _, _, rfl, hx⟩ := hx
  exact quote_eq_exec_core hat hx

/-- **`exitFarm` pays the same reward**: the quote for `(user, a, attributes of n)` is the reward
    part of exiting with `a` of position `n` -/
theorem quote_eq_exec_exit {s s' : St} {user n a : Nat} {att : Attr} {o : Out}
    (hat : s.attrs n = some att)
    (hx : exitFarm s user none n a = some (s', o)) :
    calcRewards s user a att.rps = some o.rew ∧ o.rew = o.base + o.boosted := by
  obtain ⟨orig, att', s1, c1, s2, boosted, horig, hat', hg, hb, h1, h2, h3⟩ := exitFarm_reward hx
  simp only [origCaller, Option.some.injEq] at horig
  subst horig
  rw [hat] at hat'
  simp only [Option.some.injEq] at hat'
  subst hat'
  exact ⟨calcRewards_eq_some.mpr ⟨s1, c1, s2, boosted, hg, hb, h3⟩, by rw [h3, h1, h2]⟩

/-- **view_pure.**  Quoting never changes state.  In the model this holds by construction — the view
    is a function `St → … → Option Nat` and returns a number only — although it internally settles
    (`generate`) and runs the user's boosted claim (`claimBoostedYields`), both of which would change
    storage: the theorem spells out that the view's value is the projection of that computation to
    the reward amount, the settled state `s1` / `s2` being discarded.  (On the real contracts the
    harness evaluates the view on a twin world, notes/farm.md.) -/
theorem view_pure (s : St) (user amount rpsTok : Nat) :
    calcRewards s user amount rpsTok =
      (generate s (Cache.read s)).bind fun r1 =>
        (claimBoostedYields r1.1 user).map fun r2 =>
          baseReward r1.1.dsc r1.2.rps amount rpsTok + r2.2 := by
  unfold calcRewards
  cases generate s (Cache.read s) with
  | none => rfl
  | some r1 =>
    obtain ⟨s1, c1⟩ := r1
    simp only [Option.bind_eq_bind, Option.bind_some]
    cases claimBoostedYields s1 user with
    | none => rfl
    | some r2 => rfl

/-- a quote is a function of the state: asking twice (or asking, then executing) sees the same state,
    so a successful claim after any number of quotes still pays the first quote -/
theorem quote_then_exec {s s' : St} {user n a q : Nat} {att : Attr} {o : Out}
    (hat : s.attrs n = some att)
    (hq1 : calcRewards s user a att.rps = some q)
    (hx : claimRewards s user none [(n, a)] = some (s', o)) :
    calcRewards s user a att.rps = some q ∧ o.rew = q :=
  ⟨hq1, (quote_eq_exec hat hq1 hx).1⟩

/-- non-vacuity (corpus history f1, second week, boosted pool 2500 pending, 10 more blocks to
    settle): the view promises base 7500 + boosted 2500, `claimRewards` and `exitFarm` pay exactly
    that, and the view left the state alone (the claim still finds everything unsettled) -/
example :
    let s := run (init .mint false 1000000000000 1000 true [1, 2] 0)
      [.setFactors OWNER ⟨10, 3, 2, 1, 1⟩, .setPct OWNER 2500, .setEnergy 1 1000000 0 1000,
       .enter 1 none 100000000 [], .advance 10 6, .claim 1 none [(1, 100000000)], .advance 20 7]
    (s.attrs 2).map (·.rps) = some 75000000 ∧
    calcRewards s 1 100000000 75000000 = some 10000 ∧
    (claimRewards s 1 none [(2, 100000000)]).map (fun r => (r.2.rew, r.2.base, r.2.boosted))
      = some (10000, 7500, 2500) ∧
    (exitFarm s 1 none 2 100000000).map (fun r => (r.2.rew, r.2.base, r.2.boosted))
      = some (10000, 7500, 2500) := by
  decide

end Mx.C20Farm
