/-
  KFarmBase — the reserve / supply bookkeeping every farm endpoint performs on its `StorageCache`
  (`common/modules/farm/farm_base_impl/src/{enter_farm, claim_rewards, compound_rewards, exit_farm}.rs`,
  shared by `dex/farm`, `dex/farm-with-locked-rewards` and `farm-staking`) and the reserve update of
  `claimBoostedRewards` (dex/farm/src/lib.rs, farm-staking/src/claim_only_boosted_staking_rewards.rs).

  `Gen/KFarmBase.lean` is regenerated on every run by `bin/gen-kernels` (group `FarmBase`).  Each
  fragment starts at the statement that computes the reward (the wrapper's `calculate_rewards` /
  `calculate_boosted_rewards`, an opaque input), so WHICH amount leaves the reserve is part of the
  translation, and the bookkeeping statements themselves may be rewritten freely.  The farm and staking models perform exactly these updates
  (`Core/Farm.lean` / `Core/Staking.lean`: `reserve1 ← sub? g.2.reserve reward`,
  `supply1 ← sub? g.2.supply tok.amount`, `supply + amount`, …); properties C05 (reward accounting is
  exact, principal fully backed), C06 and C12 rest on them.
-/
import MxModel.Gen.KFarmBase
import MxModel.Lemmas.KTactic

namespace Mx.KFarmBase
open Mx Mx.Gen

/-- `enterFarm`: the supply grows by exactly the farming tokens paid in; never aborts -/
theorem enter_supply_eq (amount supply : Nat) :
    KFarmBase.enter_supply amount supply = some (supply + amount) := by
  k_defs [KFarmBase.enter_supply]
  try k_solve

/-- `claimRewards`: the reserve pays exactly the reward (checked: aborts when it cannot) -/
theorem claim_reserve_eq (reward reserve : Nat) :
    KFarmBase.claim_reserve reward reserve = sub? reserve reward := by
  k_defs [KFarmBase.claim_reserve]
  try k_solve

/-- `compoundRewards`: the reward moves from the reserve into the supply.
    Result (farm_token_supply, reward_reserve) -/
theorem compound_reserve_supply_eq (reward supply reserve : Nat) :
    KFarmBase.compound_reserve_supply reward supply reserve =
      (sub? reserve reward).map fun r => (supply + reward, r) := by
  k_defs [KFarmBase.compound_reserve_supply]
  k_solve

/-- compounding conserves reserve + supply -/
theorem compound_conserves (reward supply reserve s' r' : Nat)
    (h : KFarmBase.compound_reserve_supply reward supply reserve = some (s', r')) :
    s' + r' = supply + reserve := by
  rw [compound_reserve_supply_eq] at h
  simp only [sub?] at h
  split at h
  · simp only [Option.map_some, Option.some.injEq, Prod.mk.injEq] at h
    omega
  · cases h

/-- `exitFarm`: the reserve pays exactly the reward, the supply shrinks by exactly the position's
    farming tokens (`token_attributes.get_total_supply()`), and those two amounts are what is paid out.
    Both subtractions are checked.  Result (farming tokens paid, reward paid, farm_token_supply,
    reward_reserve); the token identifiers and the burned farm-token payment do not matter -/
theorem exit_reserve_supply_eq (amount ftp reward supply farmingId reserve rewardId : Nat) :
    KFarmBase.exit_reserve_supply amount reward ftp supply farmingId reserve rewardId =
      (sub? reserve reward).bind fun r => (sub? supply amount).map fun s => (amount, reward, s, r) := by
  k_defs [KFarmBase.exit_reserve_supply]
  k_solve

/-- `claimBoostedRewards` (farm and staking): the cached reserve pays exactly the boosted reward -/
theorem claim_boosted_reserve_eq (boosted reserve : Nat) :
    KFarmBase.claim_boosted_reserve boosted reserve = sub? reserve boosted ∧
    KFarmBase.staking_claim_boosted_reserve boosted reserve = sub? reserve boosted := by
  constructor
  · k_defs [KFarmBase.claim_boosted_reserve]
    try k_solve
  · k_defs [KFarmBase.staking_claim_boosted_reserve]
    try k_solve

example : KFarmBase.compound_reserve_supply 5 100 20 = some (105, 15) := by decide
example : KFarmBase.exit_reserve_supply 30 21 0 100 1 20 2 = none := by decide
example : KFarmBase.exit_reserve_supply 30 5 0 100 1 20 2 = some (30, 5, 70, 15) := by decide

end Mx.KFarmBase
