/-
  C16 — Proxy DEX: locked tokens stay locked and every wrapped token is fully backed.

  Statement: locked tokens put to work through the proxy (liquidity or farms) can only come back
  as locked tokens of the same lock schedule, plus base asset only for pool-fee surplus above the
  locked amount; every wrapped LP / wrapped farm token is backed by the LP / farm tokens and
  locked tokens recorded in it, which the proxy holds.  Base asset the proxy mints for an entry
  is matched on exit by burning the same amount of base asset or, for the part the pool or a
  penalty kept, of locked tokens (with the user's energy reduced by exactly their contribution),
  so the combined base+locked supply is unchanged by a round trip.

  Model: Core/ProxyDex.lean — the proxy's own bookkeeping; everything obtained from the pair, the
  farms and the energy factory is an argument of the operation and the theorems below hold FOR
  ALL such responses unless a hypothesis says otherwise (the only callee fact ever assumed is
  `ft.2 = a` in `round_trip_enter_exit`: the farm mints as many farm tokens as farming tokens
  entered).  The lock schedule of a locked token is a function of its nonce (token attributes
  are immutable), so "same schedule" is "same nonce".
  Only property theorems live here; helper lemmas are in Lemmas/ProxyDex*.lean.
-/
import MxModel.Lemmas.ProxyDexLpOps

namespace Mx.C16
open Mx.ProxyDex

/-- `into_part` (`rule_of_three_non_zero_result`): a part is never zero, is the whole recorded
    amount for the whole supply, the floor of the pro-rata share otherwise, and therefore never
    more than the pro-rata share (the difference is the sub-unit dust that stays in the proxy) -/
theorem into_part_floor_nonzero {full total x p : Nat} (h : part full total x = some p) :
    p ≠ 0 ∧ (x = total → p = full) ∧ (x ≠ total → p = full * x / total) ∧
    p * total ≤ full * x := by
  obtain ⟨h0, hp⟩ := part_eq_some.mp h
  refine ⟨h0, ?_, ?_, part_mul_le h⟩
  · intro hx; rw [if_pos hx] at hp; exact hp
  · intro hx; rw [if_neg hx] at hp; exact hp

/-- one transaction preserves the backing invariant, for any operation, any arguments and any
    callee responses -/
theorem inv_step {s s' : St} {op : Op} {o : Out} (hi : Backed s) (h : step s op = some (s', o)) :
    Backed s' :=
  step_backed hi h

/-- every state reachable from a freshly deployed proxy by any history is backed -/
theorem inv_run (now : Nat) (ops : List Op) : Backed (run (init now) ops) :=
  run_backed ops (backed_init now)

/-- wrapped LP tokens are backed, after every history: (1) per locked-token nonce `κ` the proxy
    holds at least the locked tokens reserved by all outstanding wrapped tokens that record `κ`
    (wrapped LP tokens and wrapped farm tokens entered with locked tokens); (2) for every wrapped
    LP token, whatever part `x` of its outstanding amount is presented, the locked tokens
    `into_part` assigns to it are within that token's reserve — so they are in the proxy.
    (`≥`, not `=`: the floor in `into_part` leaves sub-unit dust behind.) -/
theorem wrapped_lp_backed (now : Nat) (ops : List Op) :
    let s := run (init now) ops
    (∀ κ, R s κ ≤ s.lk κ) ∧
    (∀ (w : Nat) (r : WLp) (x p : Nat), s.wl[w]? = some r → x ≤ r.circ + r.held → 0 < r.total →
        part r.locked r.total x = some p → p ≤ r.rem ∧ p ≤ s.lk r.k) := by
  intro s
  have hb : Backed s := inv_run now ops
  refine ⟨hb.lk, ?_⟩
  intro w r x p hr hx ht hp
  have hok : r.locked * (r.circ + r.held) ≤ r.rem * r.total := hb.pt.1 r (List.mem_of_getElem? hr)
  have hpm := part_mul_le hp
  have h1 : p * r.total ≤ r.rem * r.total :=
    Nat.le_trans hpm (Nat.le_trans (Nat.mul_le_mul_left _ hx) hok)
  have h2 : p ≤ r.rem := Nat.le_of_mul_le_mul_right h1 ht
  refine ⟨h2, ?_⟩
  have h3 : remAt r.k r ≤ sumOf (remAt r.k) s.wl := sumOf_le_of_mem (remAt r.k) s.wl w r hr
  have h4 := hb.lk r.k
  simp only [remAt, if_true] at h3
  unfold R at h4
  omega

/-- wrapped farm tokens are backed, after every history: per farm token (farm `g`, nonce `φ`)
    the proxy holds at least the farm tokens reserved by the outstanding wrapped farm tokens
    recording it; per wrapped-LP nonce `w` it holds at least the wrapped LP tokens reserved by
    the wrapped farm tokens entered with them; and for every wrapped farm token any part `x` of
    its outstanding amount is covered by its own reserves (farm tokens `x`, proxy-farming tokens
    `into_part`). -/
theorem wrapped_farm_backed (now : Nat) (ops : List Op) :
    let s := run (init now) ops
    (∀ g φ, F s g φ ≤ s.hf g φ) ∧ (∀ w, H s w ≤ heldOf s w) ∧
    (∀ (f : Nat) (q : WFarm) (x p : Nat), s.wf[f]? = some q → x ≤ q.circ → 0 < q.fa → part q.pa q.fa x = some p →
        x ≤ q.remF ∧ x ≤ s.hf q.farm q.fn ∧ p ≤ q.remP) := by
  intro s
  have hb : Backed s := inv_run now ops
  refine ⟨hb.hf, hb.hw, ?_⟩
  intro f q x p hq hx ht hp
  obtain ⟨h1, h2⟩ := hb.pt.2 q (List.mem_of_getElem? hq)
  have hpm := part_mul_le hp
  have h3 : p * q.fa ≤ q.remP * q.fa :=
    Nat.le_trans hpm (Nat.le_trans (Nat.mul_le_mul_left _ hx) h2)
  have h4 : remFAt q.farm q.fn q ≤ sumOf (remFAt q.farm q.fn) s.wf :=
    sumOf_le_of_mem _ s.wf f q hq
  have h5 := hb.hf q.farm q.fn
  simp only [remFAt, and_self, if_true] at h4
  unfold F at h5
  exact ⟨by omega, by omega, Nat.le_of_mul_le_mul_right h3 ht⟩

/-- the LP tokens recorded in wrapped LP tokens are in the proxy, after every history in which the
    farms never mint fewer farm tokens than farming tokens entered (`FarmOK`, the one callee fact
    this clause needs — LP tokens travel through the farms): the proxy's LP balance covers all
    wrapped LP tokens in user hands, hence any amount `x` a user can present -/
theorem wrapped_lp_tokens_backed (now : Nat) (ops : List Op) (hok : ∀ op ∈ ops, FarmOK op) :
    let s := run (init now) ops
    C s ≤ s.lp ∧ (∀ (w : Nat) (r : WLp) (x : Nat), s.wl[w]? = some r → x ≤ r.circ → x ≤ s.lp) := by
  intro s
  have hi : LpInv s := run_lpinv ops (lpinv_init now) hok
  refine ⟨hi.c, ?_⟩
  intro w r x hr hx
  have h1 : r.circ ≤ sumOf (·.circ) s.wl := sumOf_le_of_mem (·.circ) s.wl w r hr
  have h2 := hi.c
  unfold C at h2
  omega

/-- what "backed" buys: after any history (farms behaving, `FarmOK`), a holder who presents any
    amount `x` of any wrapped LP token he holds and passes the proxy's own guard (`into_part` not
    zero) is never turned away for lack of backing — the proxy has the LP tokens to send to the
    pool and the locked tokens to hand back or burn, whatever the pool then pays -/
theorem wrapped_lp_redeemable (now : Nat) (ops : List Op) (hok : ∀ op ∈ ops, FarmOK op)
    (w x rb ro p : Nat) (r : WLp) :
    let s := run (init now) ops
    s.wl[w]? = some r → 0 < x → x ≤ r.circ → 0 < r.total → part r.locked r.total x = some p →
    (removeLiq s w x rb ro).isSome := by
  intro s hr hx hc ht hp
  obtain ⟨_, hback⟩ := wrapped_lp_backed now ops
  obtain ⟨hrem, hlk⟩ := hback w r x p hr (by omega) ht hp
  obtain ⟨_, hlp⟩ := wrapped_lp_tokens_backed now ops hok
  have hlpx : x ≤ s.lp := hlp w r x hr hc
  have hlk' : p ≤ s.lk r.k := hlk
  have h1 : takeW s w x = some
      ({ setW s w { r with circ := r.circ - x, rem := r.rem - p, orph := r.orph } with
         lk := fun i => if i = r.k then s.lk i - p else s.lk i }, r, p) := by
    simp only [takeW, hr, Option.bind_eq_bind, Option.bind_some, req, hx, if_true, sub?, hc, hp,
      hrem, Bag.sub?, hlk', Option.pure_def, Bool.false_eq_true, if_false]
  simp only [removeLiq, h1, Option.bind_eq_bind, Option.bind_some, sub?, setW]
  rw [if_pos hlpx]
  simp only [Option.bind_some, Option.pure_def]
  split <;> simp

/-- leaving a farm entered with wrapped LP tokens: without penalty the same wrapped LP tokens come
    back; with a penalty the caller gets a new wrapped LP token over the remaining amount that
    records the SAME locked nonce and the pro-rata locked amount of the remainder — never more
    than was recorded for the part — and exactly the difference is burned as locked tokens -/
theorem locked_in_locked_out_farm_lp {s s' : St} {farm f x farming : Nat} {rew : Option LkTok}
    {o : Out} {q : WFarm} (h : exitFarm s farm f x farming rew = some (s', o))
    (hq : s.wf[f]? = some q) (hk : q.kind = .wlp) :
    ∃ p rw, part q.pa q.fa x = some p ∧ s.wl[q.pn]? = some rw ∧ o.locked = (0, 0) ∧ o.base = 0 ∧
      (x = farming → o.wOut = (q.pn, p) ∧ o.burned = (0, 0)) ∧
      (x ≠ farming → ∃ qO qN nr, part rw.locked rw.total p = some qO ∧
          s'.wl[o.wOut.1]? = some nr ∧ nr.k = rw.k ∧ nr.locked = qN ∧ nr.total = o.wOut.2 ∧
          o.wOut.2 + (x - farming) = p ∧ qN ≤ qO ∧ o.burned.2 = qO - qN ∧
          o.eDed = (o.burned.2 : Int) * ((s.unl rw.k : Int) - (s.now : Int))) := by
  obtain ⟨p, rw, hp, hrw, _, hl, hb, h1, h2⟩ := exitFarm_wlp_spec h hq hk
  refine ⟨p, rw, hp, hrw, hl, hb, fun hx => ⟨(h1 hx).1, (h1 hx).2.1⟩, ?_⟩
  intro hx
  obtain ⟨qO, qN, hqO, hpen, _, hle, hw, hbu, _, he, hnew⟩ := h2 hx
  refine ⟨qO, qN, ⟨p - (x - farming), rw.k, qN, p - (x - farming), 0, 0, qN⟩, hqO,
    by rw [hw]; exact hnew, rfl, rfl, by rw [hw], ?_, hle, hbu, by rw [hbu]; exact he⟩
  rw [hw]; show p - (x - farming) + (x - farming) = p; omega

/-- removing liquidity: the locked tokens handed back carry the nonce (= lock schedule) recorded
    in the wrapped LP token and are `min(received, recorded)`: never more than the part recorded
    for the amount presented, which is at most its pro-rata share -/
theorem locked_in_locked_out {s s' : St} {w x rb ro : Nat} {o : Out}
    (h : removeLiq s w x rb ro = some (s', o)) :
    ∃ r p, s.wl[w]? = some r ∧ part r.locked r.total x = some p ∧
      o.locked.1 = r.k ∧ o.locked.2 = min rb p ∧ o.locked.2 ≤ p ∧ p * r.total ≤ r.locked * x := by
  obtain ⟨r, p, hr, hp, _, _, _, h1, h2, _⟩ := removeLiq_spec h
  exact ⟨r, p, hr, hp, h1, h2, by omega, part_mul_le hp⟩

/-- leaving a farm entered with locked tokens: the locked tokens handed back carry the recorded
    nonce; their amount is the recorded part minus exactly the farm's penalty, and the penalty
    is burned as locked tokens -/
theorem locked_in_locked_out_farm {s s' : St} {farm f x farming : Nat} {rew : Option LkTok}
    {o : Out} {q : WFarm} (h : exitFarm s farm f x farming rew = some (s', o))
    (hq : s.wf[f]? = some q) (hk : q.kind = .locked) :
    ∃ p, part q.pa q.fa x = some p ∧ o.locked.1 = q.pn ∧ o.locked.2 + (x - farming) = p ∧
      o.burned.2 = x - farming ∧ o.wOut = (0, 0) := by
  obtain ⟨p, hp, _, hle, hl, hb, _, _, _, hw, _⟩ := exitFarm_locked_spec h hq hk
  refine ⟨p, hp, by rw [hl], ?_, hb, hw⟩
  rw [hl]; show p - (x - farming) + (x - farming) = p; omega

/-- base asset reaches the caller only from `removeLiquidityProxy`, and there it is exactly the
    surplus of what the pool paid over the recorded locked part -/
theorem base_only_for_surplus {s s' : St} {op : Op} {o : Out} (h : step s op = some (s', o)) :
    (∀ w x rb ro, op = .removeLiq w x rb ro →
        ∃ r p, s.wl[w]? = some r ∧ part r.locked r.total x = some p ∧ o.base = rb - p) ∧
    ((∀ w x rb ro, op ≠ .removeLiq w x rb ro) → o.base = 0) := by
  refine ⟨?_, base_zero_of_ne_removeLiq h⟩
  intro w x rb ro hop
  subst hop
  obtain ⟨r, p, hr, hp, _, _, _, _, _, hb, _⟩ := removeLiq_spec (show removeLiq s w x rb ro = _ from h)
  exact ⟨r, p, hr, hp, hb⟩

/-- the energy taken from the caller for locked tokens burned by `removeLiquidityProxy` is
    exactly `amount · (unlock − now)` and the burned amount is exactly the shortfall -/
theorem energy_delta_exact {s s' : St} {w x rb ro : Nat} {o : Out}
    (h : removeLiq s w x rb ro = some (s', o)) :
    ∃ r p, s.wl[w]? = some r ∧ part r.locked r.total x = some p ∧ o.burned.2 = p - rb ∧
      o.eDed = (o.burned.2 : Int) * ((s.unl r.k : Int) - (s.now : Int)) ∧
      s'.eDed = s.eDed + o.eDed ∧ s'.burnL = s.burnL + o.burned.2 := by
  obtain ⟨r, p, hr, hp, _, _, _, _, _, _, _, hb, _, he, _, _, _, _, hbl, hed, _⟩ := removeLiq_spec h
  exact ⟨r, p, hr, hp, hb, by rw [hb]; exact he, hed, by rw [hb]; exact hbl⟩

/-- the same for the farm penalty -/
theorem energy_delta_exact_farm {s s' : St} {farm f x farming : Nat} {rew : Option LkTok}
    {o : Out} {q : WFarm} (h : exitFarm s farm f x farming rew = some (s', o))
    (hq : s.wf[f]? = some q) (hk : q.kind = .locked) :
    o.burned.2 = x - farming ∧
    o.eDed = (o.burned.2 : Int) * ((s.unl q.pn : Int) - (s.now : Int)) ∧
    s'.eDed = s.eDed + o.eDed ∧ s'.burnL = s.burnL + o.burned.2 := by
  obtain ⟨p, _, _, _, _, hb, _, he, _, _, _, _, hbl, hed, _⟩ := exitFarm_locked_spec h hq hk
  exact ⟨hb, by rw [hb]; exact he, hed, by rw [hb]; exact hbl⟩

/-- round trip through the pool: what the proxy minted for `addLiquidityProxy` is burned again by
    the matching `removeLiquidityProxy` of the whole wrapped token — as base asset, or as locked
    tokens for the part the pool kept — whatever the pool answered (any `lp`, `ul`, `uo`, `rb`,
    `ro`, i.e. any price movement in between).  All `la` locked tokens paid in are accounted for:
    returned at entry, returned at exit, or burned. -/
theorem round_trip_supply {s s1 s2 : St} {k la oa lp ul uo rb ro : Nat} {mk : Option LkTok}
    {o1 o2 : Out} (h1 : addLiq s k la oa [] lp ul uo mk = some (s1, o1))
    (h2 : removeLiq s1 o1.wOut.1 o1.wOut.2 rb ro = some (s2, o2)) :
    s2.net = s.net ∧ o1.locked.2 + o2.locked.2 + o2.burned.2 = la ∧
    o2.locked.1 = k ∧ o2.base = rb - ul ∧
    o2.eDed = (o2.burned.2 : Int) * ((s.unl k : Int) - (s.now : Int)) := by
  obtain ⟨_, hul, _, hw, hl, _, _, _, hwl, _, hm, hbb, hbl, _, _, _, hunl, hnow⟩ :=
    addLiq_plain_spec h1
  obtain ⟨r, p, hr, hp, _, _, _, hk2, hl2, hb2, _, hbu, _, he, _, _, hm2, hbb2, hbl2, _⟩ :=
    removeLiq_spec h2
  rw [hw, hwl] at hr
  simp only [List.getElem?_append_right (Nat.le_refl _), Nat.sub_self, List.getElem?_cons_zero,
    Option.some.injEq] at hr
  subst hr
  rw [hw] at hp
  obtain ⟨_, hpe⟩ := part_eq_some.mp hp
  simp only [if_true] at hpe
  subst hpe
  simp only at hk2 hl2 hb2 hbu he
  refine ⟨?_, ?_, hk2, hb2, ?_⟩
  · unfold St.net; rw [hm2, hbb2, hbl2, hm, hbb, hbl]; omega
  · rw [hl, hl2, hbu]; simp only; omega
  · rw [he, hbu, hunl, hnow]

/-- round trip through a farm (entry with locked tokens, exit of the whole position, with or
    without the farm's penalty): the base asset minted at entry is matched by base asset burned
    plus locked tokens burned for the penalty; the caller gets back locked tokens of the nonce
    paid in.  Callee fact assumed: the farm mints as many farm tokens as farming tokens entered
    (`ft.2 = a`) and is the base-asset farm. -/
theorem round_trip_supply_farm {s s1 s2 : St} {farm k a farming : Nat} {ft : Nat × Nat}
    {rew rew' : Option LkTok} {m : Option ((Nat × Nat) × LkTok)} {stray : List LkTok}
    {o1 o2 : Out} (h1 : enterL s farm k a [] ft rew m stray = some (s1, o1))
    (h2 : exitFarm s1 farm o1.fOut.1 o1.fOut.2 farming rew' = some (s2, o2))
    (hft : ft.2 = a) (hbase : farmIsBase farm = true) :
    s2.net = s.net ∧ o2.locked.1 = k ∧ o2.locked.2 + o2.burned.2 = a ∧
    o2.burned.2 = a - farming := by
  obtain ⟨ha, hf, _, _, _, hwf, _, hm, hbb, hbl, _, _, _⟩ := enterL_plain_spec h1
  have hq : s1.wf[o1.fOut.1]? = some ⟨farm, ft.1, ft.2, .locked, k, a, ft.2, ft.2, a⟩ := by
    rw [hf, hwf]
    simp [List.getElem?_append_right (Nat.le_refl _)]
  obtain ⟨p, hp, hfx, hle, hl, hbu, _, _, _, _, hm2, hbb2, hbl2, _⟩ :=
    exitFarm_locked_spec h2 hq rfl
  rw [hf] at hp hfx hle hl hbu hbl2
  simp only at hp hfx hle hl hbu hbl2
  obtain ⟨_, hpe⟩ := part_eq_some.mp hp
  simp only [if_true] at hpe
  subst hpe
  rw [hbase] at hbb2
  simp only [if_true] at hbb2
  refine ⟨?_, by rw [hl], ?_, by rw [hbu, hft]⟩
  · unfold St.net; rw [hm2, hbb2, hbl2, hm, hbb, hbl]; omega
  · rw [hl, hbu]; simp only; omega

/-- a failed transaction leaves the state untouched (atomicity as modelled) -/
theorem failed_tx_no_effect (s : St) (op : Op) (h : step s op = none) : run s [op] = s := by
  simp [run, h]

/-- non-vacuity: a concrete history (add liquidity, enter both kinds of farm, partial exit with a
    penalty, removal after the price moved against the locked side) reaches a state where
    reserves, ledgers and the burn counters are all live -/
example :
    let s := run (init 10)
      [.lock ⟨1, 0, 370⟩,
       .addLiq 1 1000 500 [] 499 1000 500 none,
       .enterL 0 1 600 [] (1, 600) none none [],
       .enterW 1 1 200 [] (1, 200) none none [],
       .exitFarm 0 1 300 297 none,
       .exitFarm 1 2 100 99 none,
       .removeLiq 1 100 150 60]
    s.lk 1 = 1098 ∧ R s 1 = 1098 ∧ s.burnL = 3 + 2 + 50 ∧ s.eDed = (3 + 2 + 50) * 360 ∧
    s.net = 1098 ∧ s.wl.length = 3 ∧ C s = 298 ∧ s.lp = 298 := by
  decide

end Mx.C16
