/-
  C20 (pair part, second file) — quotes equal execution in BOTH directions and for EVERY fee
  configuration (fee switch on or off, any destinations, fees collector, trusted pairs, output
  locking), in every state a history can reach.

  Props/C20Pair proves exec ⇒ quote; its `quote_implies_swapIn` needs the fee switch off.  Here:

  * `Reach s`: `s` is the state after some history on a freshly deployed pair whose constructor
    fee percentages satisfy `special ≤ total ≤ MAX_FEE_PERCENTAGE` (what `setFeePercents` enforces).
    Every reachable state satisfies the backing invariant `Inv` and the fee bounds `FeeOK`.
  * for each (view, operation) pair an *iff*: the operation succeeds with output `o` exactly when
    the view answers `o`'s amount and an explicit list of further guards holds.  The guards that
    do not depend on the quote are, for swaps: pair Active, the caller's bound (`0 < minOut ≤ q`,
    resp. `q ≤ maxIn`, `0 < maxIn`), `q ≠ 0`, fee routing succeeds (`sendFee … = some _`: burn /
    collector / local / trusted-pair swaps of the special fee — external pairs may refuse), and
    while output locking is on the locking address is simple-lock.  The K check, the
    `fee ≤ input` subtraction and the final balance debit are NOT in the list: they are proved
    to hold in every reachable state.  For `removeLiquidity`: both minimums positive and met by
    the quote, state Active/PartialActive, `0 < lp`, `lp + 1000 ≤ S`.
-/
import MxModel.Lemmas.PairQuote
import MxModel.Props.C20Pair

namespace Mx.C20Pair2
open Mx.Pair

/-- `s` is reachable: the state after some history on a freshly deployed pair with sane
    constructor fee percentages -/
def Reach (s : St) : Prop :=
  ∃ (total special : Nat) (adder : Option Nat) (cap : Nat) (ops : List Op),
    special ≤ total ∧ total ≤ MAXFEE ∧ s = run (init total special adder cap) ops

/-- every reachable state satisfies the backing invariant and the fee bounds -/
theorem Reach.inv {s : St} (h : Reach s) : Inv s ∧ FeeOK s := by
  obtain ⟨t, sp, ad, cap, ops, h1, h2, rfl⟩ := h
  exact ⟨run_inv ops (inv_init t sp ad cap), run_feeOK ops (feeOK_init ad cap ⟨h1, h2⟩)⟩

/-- reachability is closed under further operations -/
theorem Reach.run {s : St} (h : Reach s) (ops : List Op) : Reach (run s ops) := by
  obtain ⟨t, sp, ad, cap, ops0, h1, h2, rfl⟩ := h
  exact ⟨t, sp, ad, cap, ops0 ++ ops, h1, h2, (run_append _ _ _).symm⟩

/-! ### getAmountOut versus swapTokensFixedInput -/

/-- **exec ⇒ quote, any fee configuration.**  In any state, if `swapTokensFixedInput` succeeds, then
    `getAmountOut` asked in that same state answers exactly the amount the swap delivered (and the
    swap's other result fields are fixed: nothing else is returned, the output is LOCKED exactly
    when output locking applies). -/
theorem swapIn_eq_quote {s s' : St} {d : Dir} {a minOut : Nat} {o : Out}
    (h : swapIn s d a minOut = some (s', o)) :
    viewAmountOut s d a = some o.v1 ∧ o = ⟨o.v1, 0, 0, s.locksOut⟩ := by
  obtain ⟨q, hq⟩ := C20.swapIn_implies_quote h
  have e := C20.amountOut_quote_eq_exec hq h
  obtain ⟨_, _, _, _, _, _, ho, _⟩ := swapIn_spec h
  refine ⟨by rw [hq, e], ?_⟩
  rw [ho]

/-- **quote ⇒ exec, any fee configuration.**  In every reachable state: if `getAmountOut` answers
    `q`, then `swapTokensFixedInput` with any minimum `0 < minOut ≤ q` succeeds and delivers exactly
    `q`, provided the guards that do not depend on the quote hold: the pair is Active, `q ≠ 0`, the
    routing of the special fee succeeds (ends in some state `s3`), and while output locking is on
    the locking address is simple-lock.  No other guard exists: the K check, `fee ≤ input` and the
    pair's balance covering the output are consequences of reachability. -/
theorem quote_implies_swapIn {s s3 : St} {d : Dir} {a minOut q : Nat} (hr : Reach s)
    (hq : viewAmountOut s d a = some q) (hact : s.status = .active) (hmin : 0 < minOut)
    (hle : minOut ≤ q) (hq0 : q ≠ 0)
    (hsend : (swapMid s d a (swapFee s a) q).sendFee d (swapFee s a) = some s3)
    (hlock : s.lockOn = true → s.lockSc = .simpleLock) :
    swapIn s d a minOut = some (swapEnd s s3 d q, ⟨q, 0, 0, s.locksOut⟩) := by
  obtain ⟨hi, hf⟩ := hr.inv
  simp only [viewAmountOut, Option.bind_eq_bind, Option.bind_eq_some_iff, req_eq_some,
    Option.pure_def, Option.some.injEq] at hq
  obtain ⟨_, h1, _, _, _, _, _, h4, rfl⟩ := hq
  obtain ⟨spent, _, hrel⟩ := sendFee_spec hsend
  exact swapIn_ok hmin h1 hact hle h4 hq0 (swapFee_bound hf a).1
    (swapIn_kcheck hf d a (Nat.le_of_lt h4)) hsend hlock
    (swap_out_covered hi (Nat.le_of_lt h4) hrel)

/-- **the two directions as one statement.**  In every reachable state `swapTokensFixedInput`
    succeeds exactly when the quote-independent guards hold and `getAmountOut` answers some
    `q ≥ minOut`, `q ≠ 0`; its output is then `q`. -/
theorem swapIn_succeeds_iff {s : St} {d : Dir} {a minOut : Nat} (hr : Reach s) (o : Out) :
    (∃ s', swapIn s d a minOut = some (s', o)) ↔
      (s.status = .active ∧ 0 < minOut ∧ (s.lockOn = true → s.lockSc = .simpleLock) ∧
       viewAmountOut s d a = some o.v1 ∧ minOut ≤ o.v1 ∧ o.v1 ≠ 0 ∧
       o = ⟨o.v1, 0, 0, s.locksOut⟩ ∧
       ((swapMid s d a (swapFee s a) o.v1).sendFee d (swapFee s a)).isSome = true) := by
  constructor
  · rintro ⟨s', h⟩
    obtain ⟨hq, ho⟩ := swapIn_eq_quote h
    obtain ⟨_, _, g1, _, g3, _, _, g6, _, g8, _⟩ := swapIn_spec h
    obtain ⟨s3, hs, _⟩ := swapIn_sendFee' h
    exact ⟨g3, g1, (swapIn_lock_spec h).1, hq, g6, g8, ho, by rw [hs]; rfl⟩
  · rintro ⟨hact, hmin, hlock, hq, hle, hne, ho, hs⟩
    obtain ⟨s3, hs3⟩ := Option.isSome_iff_exists.mp hs
    have h := quote_implies_swapIn (minOut := minOut) hr hq hact hmin hle hne hs3 hlock
    rw [← ho] at h
    exact ⟨_, h⟩

/-- with the fee switch off (no destination, no fees collector) there is no fee-routing guard -/
theorem quote_implies_swapIn_fee_off {s : St} {d : Dir} {a minOut q : Nat} (hr : Reach s)
    (hq : viewAmountOut s d a = some q) (hact : s.status = .active) (hmin : 0 < minOut)
    (hle : minOut ≤ q) (hq0 : q ≠ 0) (hoff : s.feeOn = false)
    (hlock : s.lockOn = true → s.lockSc = .simpleLock) :
    ∃ s', swapIn s d a minOut = some (s', ⟨q, 0, 0, s.locksOut⟩) := by
  have e : swapFee s a = 0 := by simp [swapFee, hoff]
  refine ⟨_, quote_implies_swapIn (s3 := swapMid s d a (swapFee s a) q) hr hq hact hmin hle hq0 ?_ hlock⟩
  rw [e]
  exact sendFee_zero _ _

/-! ### getAmountIn versus swapTokensFixedOutput -/

/-- **exec ⇒ quote, any fee configuration.**  If `swapTokensFixedOutput` succeeds, `getAmountIn`
    asked in the same state answers exactly the amount charged; the caller receives exactly the
    requested output and is refunded `maxIn − charged`. -/
theorem swapOut_eq_quote {s s' : St} {d : Dir} {maxIn out : Nat} {o : Out}
    (h : swapOut s d maxIn out = some (s', o)) :
    viewAmountIn s d out = some o.v2 ∧ o = ⟨out, o.v2, maxIn - o.v2, s.locksOut⟩ ∧ o.v2 ≤ maxIn := by
  obtain ⟨q, hq⟩ := C20.swapOut_implies_quote h
  have e := (C20.amountIn_quote_eq_exec hq h).1
  obtain ⟨_, _, _, _, _, _, _, ho, hle, _⟩ := swapOut_spec h
  refine ⟨by rw [hq, e], ?_, hle⟩
  rw [ho]

/-- **quote ⇒ exec, any fee configuration.**  In every reachable state: if `getAmountIn` answers `q`
    for the wanted output `out`, then `swapTokensFixedOutput` with any budget `maxIn ≥ q` succeeds,
    charges exactly `q`, delivers exactly `out` and refunds `maxIn − q`, provided the pair is
    Active, fee routing succeeds and (while locking is on) the locking address is simple-lock. -/
theorem quote_implies_swapOut {s s3 : St} {d : Dir} {maxIn out q : Nat} (hr : Reach s)
    (hq : viewAmountIn s d out = some q) (hact : s.status = .active) (hle : q ≤ maxIn)
    (hsend : (swapMid s d q (swapFee s q) out).sendFee d (swapFee s q) = some s3)
    (hlock : s.lockOn = true → s.lockSc = .simpleLock) :
    swapOut s d maxIn out = some (swapEnd s s3 d out, ⟨out, q, maxIn - q, s.locksOut⟩) := by
  obtain ⟨hi, hf⟩ := hr.inv
  simp only [viewAmountIn, Option.bind_eq_bind, Option.bind_eq_some_iff, req_eq_some,
    Option.pure_def, Option.some.injEq] at hq
  obtain ⟨_, h1, _, h2, _, h3, rfl⟩ := hq
  obtain ⟨spent, _, hrel⟩ := sendFee_spec hsend
  have hpos : 0 < amountIn s.total out (s.rin d) (s.rout d) := by
    unfold amountIn; exact Nat.succ_pos _
  exact swapOut_ok h1 (Nat.lt_of_lt_of_le hpos hle) hact h2 h3 hle (swapFee_bound hf _).1
    (swapOut_kcheck hf d out h2) hsend hlock (swap_out_covered hi (Nat.le_of_lt h2) hrel)

/-- **the two directions as one statement** for the fixed-output swap -/
theorem swapOut_succeeds_iff {s : St} {d : Dir} {maxIn out : Nat} (hr : Reach s) (o : Out) :
    (∃ s', swapOut s d maxIn out = some (s', o)) ↔
      (s.status = .active ∧ (s.lockOn = true → s.lockSc = .simpleLock) ∧
       viewAmountIn s d out = some o.v2 ∧ o.v2 ≤ maxIn ∧
       o = ⟨out, o.v2, maxIn - o.v2, s.locksOut⟩ ∧
       ((swapMid s d o.v2 (swapFee s o.v2) out).sendFee d (swapFee s o.v2)).isSome = true) := by
  constructor
  · rintro ⟨s', h⟩
    obtain ⟨hq, ho, hle⟩ := swapOut_eq_quote h
    obtain ⟨_, _, _, _, g3, _⟩ := swapOut_spec h
    obtain ⟨s3, hs, _⟩ := swapOut_sendFee h
    exact ⟨g3, (swapOut_lock_spec h).1, hq, hle, ho, by rw [hs]; rfl⟩
  · rintro ⟨hact, hlock, hq, hle, ho, hs⟩
    obtain ⟨s3, hs3⟩ := Option.isSome_iff_exists.mp hs
    have h := quote_implies_swapOut hr hq hact hle hs3 hlock
    rw [← ho] at h
    exact ⟨_, h⟩

/-! ### getTokensForGivenPosition versus removeLiquidity -/

/-- **quote ⇒ exec.**  In every reachable state: if `getTokensForGivenPosition(lp)` answers
    `(x₁, x₂)`, then `removeLiquidity` of `lp` with any minimums `0 < m₁ ≤ x₁`, `0 < m₂ ≤ x₂`
    succeeds and pays exactly `(x₁, x₂)`, provided the state is Active or PartialActive, `0 < lp`
    and the permanent floor stays (`lp + 1000 ≤ S`).  (The K check, "amount below reserve", the LP
    burn and the two balance debits can never fail in a reachable state.) -/
theorem quote_implies_removeLiq {s : St} {lp m1 m2 : Nat} (hr : Reach s)
    (hm1 : 0 < m1) (hm2 : 0 < m2) (hst : s.status = .active ∨ s.status = .partialActive)
    (hlp : 0 < lp) (hS : lp + MINLIQ ≤ s.S)
    (h1 : m1 ≤ (viewTokensForPosition s lp).1) (h2 : m2 ≤ (viewTokensForPosition s lp).2) :
    ∃ s', removeLiq s lp m1 m2 =
      some (s', ⟨(viewTokensForPosition s lp).1, (viewTokensForPosition s lp).2, 0, false⟩) := by
  have hM : MINLIQ = 1000 := rfl
  have hS0 : s.S ≠ 0 := by omega
  have e : viewTokensForPosition s lp = (lp * s.r1 / s.S, lp * s.r2 / s.S) := by
    simp [viewTokensForPosition, hS0]
  rw [e] at h1 h2 ⊢
  exact ⟨_, removeLiq_ok hr.inv.1 hm1 hm2 hst hlp hS h1 h2⟩

/-- **the two directions as one statement** for `removeLiquidity` -/
theorem removeLiq_succeeds_iff {s : St} {lp m1 m2 : Nat} (hr : Reach s) (o : Out) :
    (∃ s', removeLiq s lp m1 m2 = some (s', o)) ↔
      (0 < m1 ∧ 0 < m2 ∧ (s.status = .active ∨ s.status = .partialActive) ∧ 0 < lp ∧
       lp + MINLIQ ≤ s.S ∧ viewTokensForPosition s lp = (o.v1, o.v2) ∧ m1 ≤ o.v1 ∧ m2 ≤ o.v2 ∧
       o = ⟨o.v1, o.v2, 0, false⟩) := by
  constructor
  · rintro ⟨s', h⟩
    have hq := C20.position_quote_eq_exec h
    obtain ⟨g1, g2, g3, g4, g5, ho, _, g8, _, _, g11, _⟩ := removeLiq_spec h
    exact ⟨g1, g2, g3, g4, g5, hq, g8, g11, by rw [ho]⟩
  · rintro ⟨g1, g2, g3, g4, g5, hq, g8, g11, ho⟩
    have := quote_implies_removeLiq hr g1 g2 g3 g4 g5 (by rw [hq]; exact g8) (by rw [hq]; exact g11)
    rw [hq] at this
    simp only [] at this
    rw [← ho] at this
    exact this

/-! ### non-vacuity: a reachable pool with the fee switch ON (a burn destination and a fees
    collector), where all three quotes are answered and the operations deliver exactly them -/

/-- the history used below -/
def demoOps : List Op :=
  [.cfg (.setState .active), .cfg (.addDest .first), .cfg (.setCollector 30000),
   .addLiq 1000000 2000000 1 1, .swapIn .ba 7000 1]

theorem demo_reach : Reach (run (init 300 50 none 8) demoOps) :=
  ⟨300, 50, none, 8, demoOps, by decide, by decide, rfl⟩

example :
    let s := run (init 300 50 none 8) demoOps
    s.feeOn = true ∧ swapFee s 100000 = 50 ∧
    viewAmountOut s .ab 100000 = some 182534 ∧
    ((swapMid s .ab 100000 (swapFee s 100000) 182534).sendFee .ab (swapFee s 100000)).isSome = true ∧
    (swapIn s .ab 100000 182534).map (·.2) = some ⟨182534, 0, 0, false⟩ ∧
    viewAmountIn s .ab 182484 = some 99970 ∧
    (swapOut s .ab 150000 182484).map (·.2) = some ⟨182484, 99970, 50030, false⟩ ∧
    viewTokensForPosition s 1000 = (996, 2007) ∧
    (removeLiq s 1000 996 2007).map (·.2) = some ⟨996, 2007, 0, false⟩ := by
  decide

end Mx.C20Pair2
