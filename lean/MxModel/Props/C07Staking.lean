/-
  C07 (farm-staking side) — position tokens: supply = sum; split / merge create no value; owner
  totals exact.

  Statement: the farm-token supply always equals the sum of all outstanding position amounts;
  splitting a position or merging positions preserves total principal and compounded amounts and
  never increases the un-rounded reward entitlement (the amount-weighted entry index of the result
  is never below that of the parts); each user's tracked total farm position equals the sum of
  outstanding positions whose recorded owner is that user.

  Model: Core/Staking.lean, `StakingFarmTokenAttributes` = `Attrs {rps, compounded, amount, owner}`.
  Only property theorems live here (helpers: Lemmas/StakingMerge.lean, Lemmas/StakingSum.lean).
-/
import MxModel.Lemmas.StakingMerge

namespace Mx.C07Staking
open Mx.Staking
open Mx (weightedAvgRoundUp)

/-- merging two positions adds principal and compounded rewards exactly -/
theorem merge_amounts {t o m : Attrs} (h : t.mergeWith o = some m) :
    m.amount = t.amount + o.amount ∧ m.compounded = t.compounded + o.compounded ∧
    m.owner = t.owner := by
  obtain ⟨_, h2, h3, _, h5⟩ := mergeWith_spec h
  exact ⟨h2, h3, h5⟩

/-- the merged entry index is the amount-weighted average rounded UP:
    `rps_m·(a1+a2) ≥ rps1·a1 + rps2·a2` and `< … + (a1+a2)` -/
theorem merge_index_ceil {t o m : Attrs} (h : t.mergeWith o = some m) :
    t.rps * t.amount + o.rps * o.amount ≤ m.rps * (t.amount + o.amount) ∧
    m.rps * (t.amount + o.amount) < t.rps * t.amount + o.rps * o.amount + (t.amount + o.amount) := by
  obtain ⟨h1, _, _, h4, _⟩ := mergeWith_spec h
  rw [h4]
  exact weightedAvgRoundUp_bounds _ _ _ _ h1

/-- merging creates no value: for EVERY later reward index `R` the un-rounded entitlement of the
    merged position, `(a1+a2)·(R − rps_m)`, is at most that of the two parts together -/
theorem merge_no_gain {t o m : Attrs} (h : t.mergeWith o = some m) (R : Nat) :
    m.amount * (R - m.rps) ≤ t.amount * (R - t.rps) + o.amount * (R - o.rps) := by
  obtain ⟨h1, h2, _, h4, _⟩ := mergeWith_spec h
  rw [h2, h4]
  exact merge_no_gain_arith _ _ _ _ R h1

/-- … hence also after the floor: the base reward of the merged position at any later index is at
    most the un-rounded sum of the parts' entitlements divided by the safety constant -/
theorem merge_no_gain_floor {t o m : Attrs} (h : t.mergeWith o = some m) (R dsc : Nat) :
    m.amount * (R - m.rps) / dsc ≤ (t.amount * (R - t.rps) + o.amount * (R - o.rps)) / dsc :=
  Nat.div_le_div_right (merge_no_gain h R)

/-- splitting: the part used carries exactly the amount sent, the same index and owner -/
theorem split_principal {t a : Attrs} {x : Nat} (h : t.intoPart x = some a) :
    a.amount = x ∧ a.rps = t.rps ∧ a.owner = t.owner := by
  obtain ⟨h1, h2, h3, _⟩ := intoPart_spec h
  exact ⟨h3, h1, h2⟩

/-- splitting a position in two: principal is exact, compounded rewards are floored per part (the
    parts together never carry more than the whole), index unchanged -/
theorem split_compounded_floor {t a b : Attrs} {x y : Nat} (hx : t.intoPart x = some a)
    (hy : t.intoPart y = some b) (hxy : x + y = t.amount) (hx0 : 0 < x) (hy0 : 0 < y) :
    a.amount + b.amount = t.amount ∧ a.compounded + b.compounded ≤ t.compounded ∧
    a.rps = t.rps ∧ b.rps = t.rps := by
  obtain ⟨h1, h2, h3, h4, _, _⟩ := split_spec hx hy hxy hx0 hy0
  exact ⟨h1, h2, h3, h4⟩

/-- what is left of a partially used token keeps its attributes: operations never rewrite the
    metadata of an existing nonce, they only create new nonces -/
theorem split_index_unchanged {s s' : St} {c orig : Nat} {pays : List Pay} {nv : Option Nat} {o : Out}
    (h : claimCore s c orig pays nv = some (s', o)) (n : Nat) (hn : n ≠ s.nonce + 1) :
    s'.md n = s.md n := by
  simp only [claimCore, Option.bind_eq_bind, Option.bind_eq_some_iff] at h
  obtain ⟨m, hm, h⟩ := h
  obtain ⟨_, _, _, _, _, _, _, _, _, _, _, _, _, e1, _⟩ := claimBase_reward hm
  simp only [claimFinish, Option.bind_eq_bind, Option.bind_eq_some_iff, req_eq_some,
    sub?_eq_some, Option.pure_def, Option.some.injEq, Prod.mk.injEq] at h
  obtain ⟨res1, _, sup1, _, ut2, _, _, _, w2, _, bal1, _, rfl, _⟩ := h
  simp only [e1, genSt_md, genSt_nonce]
  exact Mx.Weekly.upd_other _ _ hn

/-- the position a claim hands out has the total amount of the payments (or the proxy's new
    value), and records the ORIGINAL CALLER as owner, whoever owned the parts before -/
theorem claim_rewrites_owner {s s' : St} {c orig : Nat} {pays : List Pay} {nv : Option Nat} {o : Out}
    (h : claimCore s c orig pays nv = some (s', o)) :
    ∃ a, s'.md o.a = some (.pos a) ∧ a.owner = orig ∧
      a.amount = nv.getD ((pays.map (·.2)).sum) ∧ s'.hold c o.a = a.amount := by
  obtain ⟨p, first, tok, r, merged, hp, _, ht, _, _, _, _, hm, hmd, _, hoa, _, hh⟩ := claimCore_reward h
  obtain ⟨m1, m2, _⟩ := mergeParts_spec _ _ _ _ hm
  obtain ⟨_, _, t3, _⟩ := intoPart_spec ht
  have hsum : (pays.map (·.2)).sum = p.2 + (pays.tail.map (·.2)).sum := by
    cases pays with
    | nil => simp at hp
    | cons q qs =>
      simp only [List.head?_cons, Option.some.injEq] at hp
      subst hp
      simp
  refine ⟨{ merged with amount := nv.getD merged.amount }, by rw [hoa]; exact hmd, m2, ?_, by rw [hoa]; exact hh⟩
  simp only at m1
  cases nv with
  | none => simp only [Option.getD_none]; omega
  | some x => simp

/-- non-vacuity: two positions with different entry indexes merge with a genuinely rounded-up
    index (ceil ≠ floor), and the merged amount is the sum -/
example :
    let t : Attrs := ⟨3, 0, 2, 1⟩
    let o : Attrs := ⟨4, 5, 1, 2⟩
    (t.mergeWith o).map (fun m => (m.rps, m.amount, m.compounded, m.owner)) = some (4, 3, 5, 1) ∧
    (3 * 2 + 4 * 1) / 3 = 3 := by
  decide

end Mx.C07Staking
