/-
  C06 (farm-staking side) — base rewards: pro rata in stake and time, never retroactive.

  Statement: a position's base reward on claim, unstake or compound equals
  ⌊amount·(RPS_now − RPS_entry)/DSC⌋, where the reward-per-share index only grows, by
  ⌊base_share·DSC/supply⌋ for the blocks elapsed; a position earns nothing for blocks before it
  entered; changing the rate, the APR, the boosted percentage or stopping production settles
  rewards up to that block first, so changes are never retroactive.

  Model: Core/Staking.lean.  In the staking farm the per-interval emission is
  `genTot = min(perBlock·Δ, APR bound·Δ, capacity − accumulated)` (C12), the base share is
  `genTot − ⌊genTot·pct/10000⌋`.  Only property theorems live here (helpers: Lemmas/StakingReward.lean).
-/
import MxModel.Lemmas.StakingReward
import MxModel.Lemmas.StakingEnterMerge

namespace Mx.C06Staking
open Mx.Staking
open Mx.Weekly (upd)

/-- `claimRewards` (plain, for an original caller, with new value, on behalf): the reward paid is
    `⌊amount·(rps_now − rps_entry)/dsc⌋` (0 if `rps_entry ≥ rps_now`) on the part sent, with
    `rps_now` the index AFTER settling, plus the boosted rewards of the original caller; the
    base part is what the paid-base ledger grows by. -/
theorem reward_formula_claim {s s' : St} {c orig : Nat} {pays : List Pay} {nv : Option Nat} {o : Out}
    (h : claimCore s c orig pays nv = some (s', o)) :
    ∃ p first tok r, pays.head? = some p ∧ posOf s.md p.1 = some first ∧
      first.intoPart p.2 = some tok ∧ tok.rps = first.rps ∧
      claimBoostedYields (genSt s) orig ((genSt s).userTotal orig) = some r ∧
      o.c = (if first.rps < s'.rps then p.2 * (s'.rps - first.rps) / s'.dsc else 0) + r.2.2 ∧
      s'.paidBase = s.paidBase + (if first.rps < s'.rps then p.2 * (s'.rps - first.rps) / s'.dsc else 0) := by
  obtain ⟨p, first, tok, r, _, hp, hf, ht, hr, ho, hb, _⟩ := claimCore_reward h
  have e := (intoPart_spec ht).1
  rw [e] at ho hb
  exact ⟨p, first, tok, r, hp, hf, ht, e, hr, ho, hb⟩

/-- `unstakeFarm` / `unstakeFarmThroughProxy`: the same formula on the part taken out -/
theorem reward_formula_unstake {s s' : St} {c orig : Nat} {pay : Pay} {x : Option Nat} {o : Out}
    (h : unstakeCore s c orig pay x = some (s', o)) :
    ∃ first r, posOf s.md pay.1 = some first ∧
      claimBoostedYields (genSt s) orig ((genSt s).userTotal orig) = some r ∧
      o.c = (if first.rps < s'.rps then pay.2 * (s'.rps - first.rps) / s'.dsc else 0) + r.2.2 ∧
      s'.paidBase = s.paidBase + (if first.rps < s'.rps then pay.2 * (s'.rps - first.rps) / s'.dsc else 0) := by
  obtain ⟨first, tok, r, hf, ht, hr, ho, hb⟩ := unstakeCore_reward h
  have e := (intoPart_spec ht).1
  rw [e] at ho hb
  exact ⟨first, r, hf, hr, ho, hb⟩

/-- `compoundRewards`: the same reward, added to the position and to the supply -/
theorem reward_formula_compound {s s' : St} {c : Nat} {pays : List Pay} {o : Out}
    (h : compound s c pays = some (s', o)) :
    ∃ p first r, pays.head? = some p ∧ posOf s.md p.1 = some first ∧
      claimBoostedYields (genSt s) c ((genSt s).userTotal c) = some r ∧
      o.c = (if first.rps < s'.rps then p.2 * (s'.rps - first.rps) / s'.dsc else 0) + r.2.2 ∧
      s'.supply = s.supply + o.c := by
  obtain ⟨p, first, tok, r, hp, hf, ht, hr, ho, _, hs⟩ := compound_reward h
  have e := (intoPart_spec ht).1
  rw [e] at ho
  exact ⟨p, first, r, hp, hf, hr, ho, hs⟩

/-- the index never decreases, whatever the transaction -/
theorem rps_mono {s s' : St} {op : Op} {o : Out} (h : step s op = some (s', o)) : s.rps ≤ s'.rps :=
  (eff_rps (step_eff h)).1

/-- … hence over any history -/
theorem rps_mono_run (s : St) (ops : List Op) : s.rps ≤ (run s ops).rps := by
  induction ops generalizing s with
  | nil => exact Nat.le_refl _
  | cons op ops ih =>
    simp only [run, List.foldl_cons]
    cases hst : step s op with
    | none => exact ih s
    | some r =>
      obtain ⟨s1, o⟩ := r
      exact Nat.le_trans (rps_mono hst) (ih s1)

/-- the index moves, in one transaction, either not at all or by exactly
    `⌊(emission − boosted cut)·dsc/supply⌋` of ONE settlement under the pre-state configuration
    and supply (no increment at zero supply); the division-safety constant never changes -/
theorem rps_increment {s s' : St} {op : Op} {o : Out} (h : step s op = some (s', o)) :
    s'.dsc = s.dsc ∧
    (s'.rps = s.rps ∨
     s'.rps = s.rps +
       (if s.supply = 0 then 0 else (genTot s - genCut s (genTot s)) * s.dsc / s.supply)) := by
  obtain ⟨_, h2, h3⟩ := eff_rps (step_eff h)
  exact ⟨h2, h3⟩

/-- within a block that was already settled nothing more is accrued and the index stands still
    (several operations in one block are settled once) -/
theorem settled_block_is_final {s s' : St} {op : Op} {o : Out} (h : step s op = some (s', o))
    (hb : s.block ≤ s.lastBlock) : s'.rps = s.rps ∧ s'.accumulated = s.accumulated :=
  eff_settled_block (step_eff h) hb

/-- never retroactive, entry side: a position created by `stakeFarm` (without merging) records the
    index AFTER the settlement at its entry block, and that block is then settled … -/
theorem entry_index_is_current {s s' : St} {c orig amount : Nat} {v : Bool} {o : Out}
    (hi : Inv s) (h : stakeCore s c orig amount v [] = some (s', o)) :
    s'.md o.a = some (.pos ⟨s'.rps, 0, amount, orig⟩) ∧ s'.block ≤ s'.lastBlock := by
  obtain ⟨h1, h2, _, _, _, h6⟩ := stakeCore_new_position h
  have hb : s'.block = s.block := by
    obtain ⟨_, _, _, _, _, _, _, _, _, _, _, _, _, _, _, _, _, _, _, _, _, _, _, hb'⟩ := stakeCore_eff h
    cases v <;>
    · simp only [stakeCore, Option.bind_eq_bind, Option.bind_eq_some_iff, req_eq_some,
        sub?_eq_some, Option.pure_def, Option.some.injEq, Prod.mk.injEq] at h
      obtain ⟨_, _, hold0, _, r, _, res1, _, _, _, ut1, _, ⟨s3, c3⟩, hg, merged, _, w2, _,
        bal1, _, rfl, _⟩ := h
      obtain ⟨_, _, rfl, rfl⟩ := generate_spec hg
      rfl
  have := hi.last_le
  rw [h2]
  exact ⟨h1, by omega⟩

/-- … so a position earns NOTHING for blocks up to its entry block: claiming it while the block is
    still the entry block pays a zero base reward -/
theorem no_retro_entry {s s' : St} {c orig : Nat} {p : Pay} {nv : Option Nat} {o : Out} {a : Attrs}
    (hm : s.md p.1 = some (.pos a)) (hr : a.rps = s.rps) (hb : s.block ≤ s.lastBlock)
    (h : claimCore s c orig [p] nv = some (s', o)) : s'.paidBase = s.paidBase := by
  obtain ⟨p', first, tok, r, hp, hf, ht, _, _, _, hpaid⟩ := reward_formula_claim h
  simp only [List.head?_cons, Option.some.injEq] at hp
  subst hp
  have hfirst : first = a := by
    unfold posOf at hf
    rw [hm] at hf
    simpa using hf.symm
  have hrps := (eff_settled_block (claimCore_eff h) hb).1
  rw [hfirst, hr, hrps] at hpaid
  simpa using hpaid

/-- **no_retro_entry_merge** (farm-staking).  `stakeFarm` WITH farm tokens sent along (any number of
    extra payments): the position created has amount `amount + Σ paid`, and at EVERY future index `R`
    it can claim at most `amount·(R − index settled to the entering block)` — the fresh stake earns
    from NOW on only — plus what the merged-in positions could already claim at their own entry
    indexes (pre-state attributes); at `R = s'.rps` the fresh stake contributes 0. -/
theorem no_retro_entry_merge {s s' : St} {c orig amount : Nat} {v : Bool} {adds : List Pay} {o : Out}
    (h : stakeCore s c orig amount v adds = some (s', o)) :
    ∃ m : Attrs, s'.md o.a = some (.pos m) ∧ m.amount = amount + (adds.map (·.2)).sum ∧
      (∀ R, m.amount * (R - m.rps) ≤ amount * (R - s'.rps) +
        (adds.map fun p => p.2 * (match posOf s.md p.1 with | some a => R - a.rps | none => 0)).sum) ∧
      m.amount * (s'.rps - m.rps) ≤
        (adds.map fun p => p.2 * (match posOf s.md p.1 with | some a => s'.rps - a.rps | none => 0)).sum := by
  obtain ⟨m, h1, _, h2, h3⟩ := EnterMerge.stakeCore_merge_no_retro h
  have s2 : ∀ R (l : List Pay), payW (potW s.md R) l =
      (l.map fun p => p.2 * (match posOf s.md p.1 with | some a => R - a.rps | none => 0)).sum := by
    intro R l; induction l with
    | nil => rfl
    | cons p r ih =>
      have e : potW s.md R p.1 = (match posOf s.md p.1 with | some a => R - a.rps | none => 0) := by
        unfold potW; cases posOf s.md p.1 <;> rfl
      simp only [payW, List.map_cons, List.sum_cons, ih, e, Nat.mul_comm]
  refine ⟨m, h1, by rw [h2, payTot_eq], fun R => by rw [← s2]; exact h3 R, ?_⟩
  have := h3 s'.rps
  rw [Nat.sub_self, Nat.mul_zero, Nat.zero_add, s2] at this
  exact this

/-- admin changes are never retroactive: `setMaxApr`, `setPerBlockRewardAmount`,
    `endProduceRewards`, `setBoostedYieldsRewardsPercentage` equal "settle under the OLD
    configuration at this block, then write the one cell" -/
theorem admin_settles_first_apr {s s' : St} {x : Nat} {o : Out} (h : setMaxApr s x = some (s', o)) :
    s' = { (genSt s).flush (genCache s s.cache) with maxApr := x } := by
  simp only [setMaxApr, Option.bind_eq_bind, Option.bind_eq_some_iff] at h
  obtain ⟨_, _, h⟩ := h
  exact (settleThen_eq h).2

theorem admin_settles_first_rate {s s' : St} {x : Nat} {o : Out} (h : setPerBlock s x = some (s', o)) :
    s' = { (genSt s).flush (genCache s s.cache) with perBlock := x } := by
  simp only [setPerBlock, Option.bind_eq_bind, Option.bind_eq_some_iff] at h
  obtain ⟨_, _, h⟩ := h
  exact (settleThen_eq h).2

theorem admin_settles_first_end {s s' : St} {o : Out} (h : endProduce s = some (s', o)) :
    s' = { (genSt s).flush (genCache s s.cache) with produce := false } :=
  (settleThen_eq h).2

theorem admin_settles_first_pct {s s' : St} {p : Nat} {o : Out} (h : setBoostedPct s p = some (s', o)) :
    p ≤ MAX_PERCENT ∧ s' = { (genSt s).flush (genCache s s.cache) with boostedPct := p } := by
  simp only [setBoostedPct, Option.bind_eq_bind, Option.bind_eq_some_iff, req_eq_some] at h
  obtain ⟨_, hp, h⟩ := h
  exact ⟨hp, (settleThen_eq h).2⟩

/-- `startProduceRewards` restarts the clock: nothing is emitted for the blocks production was off -/
theorem start_sets_last_block {s s' : St} {o : Out} (h : startProduce s = some (s', o)) :
    s'.lastBlock = s.block ∧ s'.produce = true ∧ s'.rps = s.rps ∧ s'.accumulated = s.accumulated := by
  simp only [startProduce, Option.bind_eq_bind, Option.bind_eq_some_iff, req_eq_some,
    Option.pure_def, Option.some.injEq, Prod.mk.injEq] at h
  obtain ⟨_, _, _, _, rfl, _⟩ := h
  exact ⟨rfl, rfl, rfl, rfl⟩

/-- the full statement of the emission bound on base rewards (proved below for what the model's
    ledgers record; the inequality `paidBase ≤ baseBudget` itself is the potential-function
    theorem of Lemmas/StakingSum.lean when present) -/
def total_base_bound_full : Prop :=
  ∀ (epoch block dsc maxApr minUnbond perBlock : Nat) (accts wl : List Nat) (ops : List Op),
    0 < dsc →
    (run (init epoch block dsc maxApr minUnbond perBlock accts wl) ops).paidBase ≤
      (run (init epoch block dsc maxApr minUnbond perBlock accts wl) ops).baseBudget

/-- what is emitted is split exactly into the base budget and the boosted cuts, and everything
    paid (base + boosted) comes out of what was emitted, after any history -/
theorem total_base_bound_partial (epoch block dsc maxApr minUnbond perBlock : Nat) (accts wl : List Nat)
    (ops : List Op) :
    let s := run (init epoch block dsc maxApr minUnbond perBlock accts wl) ops
    s.baseBudget + s.boostedBudget = s.accumulated ∧
    s.paidBase + s.paidBoosted ≤ s.baseBudget + s.boostedBudget := by
  intro s
  have h : Inv s := run_inv ops (inv_init epoch block dsc maxApr minUnbond perBlock accts wl)
  have h1 := h.budget
  have h2 := h.res_eq
  omega

/-- non-vacuity: two users, different entry blocks, a rate change between their claims -/
example :
    let s0 := init 5 10 1000000000000 1000000 2 5000 [1, 2, 101] [101]
    let s := run s0
      [.topUp 1000000, .stake 1 none 1000000000000 [], .advance 10 0, .stake 2 none 1000000000000 [],
       .advance 10 0, .setPerBlock 1000, .advance 10 0, .claim 1 none (1, 1000000000000),
       .claim 2 none (2, 1000000000000)]
    s.rps = 80000 ∧ s.paidBase = 80000 + 30000 ∧ s.accumulated = 110000 := by
  decide

end Mx.C06Staking
