/-
  C06 — Farm base rewards: pro rata in stake and time, never retroactive or over-issued
  (dex/farm, dex/farm-with-locked-rewards; farm-staking has its own file).

  Statement: a position's base reward on claim / exit / compound is `⌊amount·(RPS_now − RPS_entry)/DSC⌋`;
  the index only grows, by `⌊base_share·DSC/supply⌋` per settlement for the blocks elapsed while
  production is on (nothing at zero supply); a position earns nothing for blocks before it entered;
  rate / percentage / production changes settle under the old configuration first.

  Model: Core/Farm.lean.  `minted s` = `perBlock·(block − lastBlock)` while producing (0 otherwise),
  `cutOf s` = the boosted cut `⌊minted·pct/10000⌋`, `baseShare s = minted s − cutOf s`,
  `rpsIncr s = ⌊baseShare s·dsc/supply⌋` (0 at zero supply) — Lemmas/FarmSpec.lean, FarmRps.lean.
-/
import MxModel.Lemmas.FarmRps
import MxModel.Lemmas.FarmArith
import MxModel.Lemmas.FarmPot
import MxModel.Lemmas.FarmEnterMerge

namespace Mx.C06
open Mx.Farm

/-- **reward_formula (claim / compound).**  The base part of what `claimRewards`,
    `claimRewardsOnBehalf`, `compoundRewards` pay for the first payment `(nonce, amount)` is
    `⌊amount·(rps_now − rps_entry)/dsc⌋` (0 if the entry index is not below), where `rps_now` is the
    index AFTER settling up to the current block and `rps_entry` the index recorded in the token. -/
theorem reward_formula_claim {s s' : St} {caller orig : Nat} {pays : List (Nat × Nat)} {cmp : Bool} {o : Out}
    (h : claimCore s caller orig pays cmp = some (s', o)) :
    ∃ n a att, pays.head? = some (n, a) ∧ s.attrs n = some att ∧ s'.rps = s.rps + rpsIncr s ∧
      o.base = (if att.rps < s'.rps then a * (s'.rps - att.rps) / s.dsc else 0) ∧
      o.rew = o.base + o.boosted := by
  obtain ⟨n, a, att, h1, h2, h3, h4, h5⟩ := claimCore_rv h
  have hr : s'.rps = s.rps + rpsIncr s := congrArg RV.rps h5
  exact ⟨n, a, att, h1, h2, hr, by rw [h3, hr]; rfl, h4⟩

/-- **reward_formula (exit).**  Same formula for the amount leaving through `exitFarm`. -/
theorem reward_formula_exit {s s' : St} {caller : Nat} {opt : Option Nat} {n a : Nat} {o : Out}
    (h : exitFarm s caller opt n a = some (s', o)) :
    ∃ att, s.attrs n = some att ∧ s'.rps = s.rps + rpsIncr s ∧
      o.base = (if att.rps < s'.rps then a * (s'.rps - att.rps) / s.dsc else 0) ∧
      o.rew = o.base + o.boosted := by
  obtain ⟨att, h2, _, h3, h4, h5⟩ := exitFarm_rv h
  have hr : s'.rps = s.rps + rpsIncr s := congrArg RV.rps h5
  exact ⟨att, h2, hr, by rw [h3, hr]; rfl, h4⟩

/-- **rps_mono.**  No operation ever lowers the reward-per-share index … -/
theorem rps_mono_step {s s' : St} {op : Op} {o : Out} (h : step s op = some (s', o)) : s.rps ≤ s'.rps :=
  step_rps_mono h

/-- … hence it is monotone along every history. -/
theorem rps_mono (s : St) (ops : List Op) : s.rps ≤ (run s ops).rps := run_rps_mono ops s

/-- **rps_increment.**  An operation either leaves index and last reward block alone, or performs
    exactly one settlement: `rps += ⌊(minted − cut)·dsc/supply⌋` (nothing when the supply is 0),
    `last := block` — with `minted = perBlock·(block − last)` while producing and 0 otherwise, all under
    the configuration in force BEFORE the operation; or it is `startProduceRewards`, which only moves
    the last reward block to now. -/
theorem rps_increment {s s' : St} {op : Op} {o : Out} (h : step s op = some (s', o)) :
    (s'.rps = s.rps ∧ s'.lastBlock = s.lastBlock) ∨
    (s'.rps = s.rps + (if s.supply = 0 then 0 else (minted s - cutOf s) * s.dsc / s.supply) ∧
      s'.lastBlock = (if s.lastBlock < s.block then s.block else s.lastBlock)) ∨
    (s'.rps = s.rps ∧ s'.lastBlock = s.block) := by
  rcases step_rpsMove h with ⟨h1, h2⟩ | ⟨h1, h2⟩ | ⟨h1, h2⟩
  · exact Or.inl ⟨h1, h2⟩
  · exact Or.inr (Or.inl ⟨h1, h2⟩)
  · exact Or.inr (Or.inr ⟨h1, h2⟩)

/-- the emission of a settlement: `perBlock·Δblocks` while production is on, else 0; and the
    boosted cut never exceeds it -/
theorem minted_eq (s : St) :
    minted s = (if s.lastBlock < s.block ∧ s.produce = true then s.perBlock * (s.block - s.lastBlock) else 0) := by
  unfold minted
  by_cases h1 : s.lastBlock < s.block <;> by_cases h2 : s.produce = true <;> simp [h1, h2]

/-- after a settlement nothing more is emitted in the same block: several operations in one block
    share a single emission -/
theorem no_double_emission {s t : St} (h : rv t = settledRV s) : minted t = 0 :=
  rpsIncr_settled_zero s t h

/-- **no_retro_entry.**  The position created by a plain `enterFarm` records the index as settled
    up to the entering block, so its base reward at that index is 0: it earns nothing for blocks
    up to and including the block it entered in. -/
theorem no_retro_entry {s s' : St} {caller orig dst amt : Nat} {o : Out}
    (h : enterCore s caller orig dst amt [] = some (s', o)) :
    ∃ a, s'.attrs o.nonce = some a ∧ a.rps = s'.rps ∧ a.amt = amt ∧
      baseReward s'.dsc s'.rps amt a.rps = 0 ∧ s'.rps = s.rps + rpsIncr s := by
  obtain ⟨a, h1, h2, h3, _, _, _⟩ := enterCore_token h
  have hr : s'.rps = s.rps + rpsIncr s := congrArg RV.rps (enterCore_rv h)
  exact ⟨a, h1, h2, h3, by rw [h2]; exact baseReward_same _ _ _, hr⟩

/-- **no_retro_entry_merge.**  `enterFarm` WITH farm tokens sent along (enter-and-merge, any number of
    extra payments `(nonce, amount)`): the token created has principal `amt + Σ paid amounts`, and at
    EVERY future index `R` it can claim at most `amt·(R − index settled to the entering block)` — the
    fresh principal earns from NOW on only — plus what the merged-in positions could already claim at
    their own entry indexes (read from the pre-state attributes).  At `R = s'.rps` the fresh part
    contributes exactly 0: merging on entry gives the new stake nothing retroactive. -/
theorem no_retro_entry_merge {s s' : St} {caller orig dst amt : Nat} {extra : List (Nat × Nat)} {o : Out}
    (h : enterCore s caller orig dst amt extra = some (s', o)) :
    ∃ a, s'.attrs o.nonce = some a ∧ a.amt = amt + (extra.map (·.2)).sum ∧
      (∀ R, a.amt * (R - a.rps) ≤ amt * (R - s'.rps) +
        (extra.map fun p => p.2 * (R - (match s.attrs p.1 with | some b => b.rps | none => 0))).sum) ∧
      a.amt * (s'.rps - a.rps) ≤
        (extra.map fun p => p.2 * (s'.rps - (match s.attrs p.1 with | some b => b.rps | none => 0))).sum := by
  obtain ⟨a, h1, h2, _, h3⟩ := EnterMerge.enterCore_token_merge h
  have s1 : ∀ l : List (Nat × Nat), paySum l = (l.map (·.2)).sum := by
    intro l; induction l with
    | nil => rfl
    | cons p r ih => obtain ⟨n, x⟩ := p; simp only [paySum, List.map_cons, List.sum_cons, ih]
  have s2 : ∀ R (l : List (Nat × Nat)), payPot s.attrs R l =
      (l.map fun p => p.2 * (R - (match s.attrs p.1 with | some b => b.rps | none => 0))).sum := by
    intro R l; induction l with
    | nil => rfl
    | cons p r ih =>
      obtain ⟨n, x⟩ := p
      have e : rpsA s.attrs n = (match s.attrs n with | some b => b.rps | none => 0) := by
        unfold rpsA; cases s.attrs n <;> rfl
      simp only [payPot, List.map_cons, List.sum_cons, ih, e]
  refine ⟨a, h1, by rw [h2, s1], fun R => by rw [← s2]; exact h3 R, ?_⟩
  have := h3 s'.rps
  rw [Nat.sub_self, Nat.mul_zero, Nat.zero_add, s2] at this
  exact this

/-- non-vacuity: enter 20 together with an older position of 30 after the index has moved -/
example :
    let s := run (init .mint false 7 10 true [1] 0) [.enter 1 none 30 [], .advance 5 0]
    (enterCore s 1 1 1 20 [(1, 30)]).map (fun r => (r.2.amt, (r.1.attrs r.2.nonce).map (·.amt))) =
      some (50, some 50) := by decide

/-- a position's base entitlement only depends on the index difference, and is monotone in the index -/
theorem base_reward_mono {dsc a r rps1 rps2 : Nat} (h : rps1 ≤ rps2) :
    baseReward dsc rps1 a r ≤ baseReward dsc rps2 a r := baseReward_mono_rps h

/-- **admin_settles_first.**  `setPerBlockRewardAmount`, `endProduceRewards`,
    `setBoostedYieldsRewardsPercentage`: the post-state is "settle at this block under the OLD rate /
    percentage / production flag, then change the field"; `startProduceRewards` (only possible while
    production is off) just restarts the clock at the current block — none of them is retroactive. -/
theorem admin_settles_first {s s' : St} {c : Nat} :
    (∀ x, setPerBlock s c x = some s' → rv s' = { settledRV s with perBlock := x }) ∧
    (endProduce s c = some s' → rv s' = { settledRV s with produce := false }) ∧
    (∀ p, setPct s c p = some s' → rv s' = { settledRV s with pct := p }) ∧
    (startProduce s c = some s' → s.produce = false ∧
        rv s' = { rv s with produce := true, lastBlock := s.block }) :=
  ⟨fun _ h => (setPerBlock_rv h).2, fun h => endProduce_rv h, fun _ h => (setPct_rv h).2,
   fun h => ⟨(startProduce_rv h).2.1, (startProduce_rv h).2.2⟩⟩

/-- **total_base_bound.**  Over ANY history (any schedule of enters / exits / merges / transfers of
    several users, any spacing of blocks incl. several operations per block and idle gaps with zero
    supply, any reconfiguration points, any `dsc ≠ 0` and rate) the base rewards paid never exceed the
    sum over the settled intervals of `perBlock·Δblocks − boosted cut` (= `baseBudget`).  Proved with
    the potential `Σ outstanding·(rps − entry)` (Lemmas/FarmPot.lean): a settlement adds at most
    `base·dsc` to it, a payment removes at least `dsc·paid`, merging rounds the entry index up. -/
theorem total_base_bound (kind : Kind) (same : Bool) (dsc pb : Nat) (produce : Bool) (users : List Nat)
    (e0 : Nat) (hnd : users.Nodup) (hd : dsc ≠ 0) (ops : List Op) :
    (run (init kind same dsc pb produce users e0) ops).paidBase ≤
      (run (init kind same dsc pb produce users e0) ops).baseBudget :=
  Farm.total_base_bound kind same dsc pb produce users e0 hnd hd ops

/-- stronger: even together with everything still claimable (each nonce's outstanding amount
    claimed in one piece, the most favourable rounding) the base budget is not exceeded -/
theorem total_base_bound_with_claimable (kind : Kind) (same : Bool) (dsc pb : Nat) (produce : Bool)
    (users : List Nat) (e0 : Nat) (hnd : users.Nodup) (hd : dsc ≠ 0) (ops : List Op) :
    let s := run (init kind same dsc pb produce users e0) ops
    ((nonceList s).map fun n => baseReward s.dsc s.rps (heldBy s n) (rpsOf s n)).sum + s.paidBase ≤ s.baseBudget :=
  Farm.claimable_le kind same dsc pb produce users e0 hnd hd ops

/-- non-vacuity: two users, a reconfiguration between their operations, small `dsc` -/
example :
    let s := run (init .mint false 7 10 true [1, 2] 0)
      [.enter 1 none 3 [], .advance 5 0, .enter 2 none 4 [], .setPerBlock OWNER 100, .advance 6 0,
       .claim 1 none [(1, 3)], .claim 2 none [(2, 4)]]
    s.rps = 216 ∧ s.lastBlock = 6 ∧ s.paidBase = 149 ∧ s.baseBudget = 150 := by decide

end Mx.C06
