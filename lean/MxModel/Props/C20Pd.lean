/-
  C20 (price-discovery part) — `getCurrentPhase` / `getCurrentPrice` versus deposit and withdraw
  in the same state.  Views are pure functions of the state in the model; on the real code
  "quoting never changes state" is the harness clause `view_pure`.
-/
import MxModel.Lemmas.PdQuote

namespace Mx.C20
open Mx.PD

/-- a deposit only succeeds in a phase that `getCurrentPhase` reports as open for deposits -/
theorem pd_deposit_phase_quote {s s' : St} {c : Nat} {t : Tok} {amt : Nat} {o : Out}
    (h : deposit s c t amt = some (s', o)) : (viewPhase s).depositAllowed = true :=
  quote_phase_deposit h

/-- a withdrawal only succeeds in a phase `getCurrentPhase` reports as open for withdrawals and
    pays exactly `amt − ⌊amt·pct/10^13⌋` with the penalty percentage that view reported -/
theorem pd_withdraw_phase_quote {s s' : St} {c : Nat} {t : Tok} {amt : Nat} {o : Out}
    (h : withdraw s c t amt = some (s', o)) :
    (viewPhase s).withdrawAllowed = true ∧
    o.v1 = amt - amt * (viewPhase s).pct / MAXP ∧ o.v2 = amt * (viewPhase s).pct / MAXP :=
  quote_phase_withdraw h

/-- after a successful deposit `getCurrentPrice` reports the price the deposit itself checked
    against the configured minimum -/
theorem pd_price_after_deposit {s s' : St} {c : Nat} {t : Tok} {amt : Nat} {o : Out}
    (h : deposit s c t amt = some (s', o)) :
    ∃ p, viewPrice s' = some p ∧ (p = 0 ∨ s.cfg.minPrice ≤ p ∨ t = .accepted) :=
  quote_price_after_deposit h

/-- …and likewise after a withdrawal (which is never exempt from the floor) -/
theorem pd_price_after_withdraw {s s' : St} {c : Nat} {t : Tok} {amt : Nat} {o : Out}
    (h : withdraw s c t amt = some (s', o)) :
    ∃ p, viewPrice s' = some p ∧ s.cfg.minPrice ≤ p :=
  quote_price_after_withdraw h

/-- the quote is complete: a deposit succeeds exactly when the caller is a user with the
    funds, the amount is positive, the reported phase admits deposits and the price the views
    would report afterwards passes the floor rule — there is no hidden guard -/
theorem pd_deposit_ok_iff (s : St) (c : Nat) (t : Tok) (amt : Nat) :
    (deposit s c t amt).isSome = true ↔
      s.isUser c ∧ 0 < amt ∧ (viewPhase s).depositAllowed = true ∧ amt ≤ (s.side t).w c ∧
      ∃ p, priceOf s.cfg (if t = .launched then s.L.bal + amt else s.L.bal)
              (if t = .accepted then s.A.bal + amt else s.A.bal) = some p ∧
           (p = 0 ∨ s.cfg.minPrice ≤ p ∨ t = .accepted) :=
  deposit_ok_iff s c t amt

end Mx.C20
