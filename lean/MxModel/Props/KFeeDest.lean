/-
  KFeeDest — the tail of the pair's `send_fee` (dex/pair/src/fee.rs): the split of the remaining fee
  into equal slices and the loop over the fee destinations, as the SOURCE writes it (property C03:
  every configured destination receives the same slice `⌊remaining / #destinations⌋`, nothing is sent
  when there is no destination or the slice is zero).

  Generated (`Gen/KFeeDest.lean`): `fee_destinations` (fragment from `let slices = …` to the end of the
  function) and its loop `fee_destinations_loop` over the entries `(address, requested token)` of the
  storage map `destination_map`, in iteration order.  `send_fee_slice` (swaps and external calls) is an
  OPAQUE callee `Nat → Nat → Nat → Nat → Option Nat` (swap order, slice, address, requested token; the
  storage-cache record and the fee token id are not passed); `Core/Pair.lean` models it as
  `St.feeSlice`, threaded through `St.feeSlices` by `St.sendFee` under the same two guards.
-/
import MxModel.Gen.KFeeDest
import MxModel.Core.Pair
import MxModel.Lemmas.KTactic

namespace Mx.KFeeDest
open Mx Mx.Gen

/-- the loop calls the callee once per destination, in order, each time with the SAME slice, and
    aborts as soon as one call aborts: it succeeds exactly when every destination's call succeeds
    (for EVERY callee — so skipping a destination or passing another amount would be visible) -/
theorem fee_destinations_loop_ok_iff (f : Nat → Nat → Nat → Nat → Option Nat) (ord slice : Nat)
    (ds : List (Nat × Nat)) :
    KFeeDest.fee_destinations_loop f ord slice ds () = some () ↔
      ∀ d ∈ ds, ∃ r, f ord slice d.1 d.2 = some r := by
  induction ds with
  | nil => simp [KFeeDest.fee_destinations_loop]
  | cons d ds ih =>
    obtain ⟨a, t⟩ := d
    cases h : f ord slice a t with
    | none => simp [KFeeDest.fee_destinations_loop, h]
    | some r => simp [KFeeDest.fee_destinations_loop, h, ih]

/-- the loop stops at the FIRST destination whose call aborts (the ones before were served) -/
theorem fee_destinations_loop_append (f : Nat → Nat → Nat → Nat → Option Nat) (ord slice : Nat)
    (ds es : List (Nat × Nat)) :
    KFeeDest.fee_destinations_loop f ord slice (ds ++ es) () =
      (KFeeDest.fee_destinations_loop f ord slice ds ()).bind
        fun _ => KFeeDest.fee_destinations_loop f ord slice es () := by
  induction ds with
  | nil => simp [KFeeDest.fee_destinations_loop]
  | cons d ds ih =>
    obtain ⟨a, t⟩ := d
    cases h : f ord slice a t with
    | none => simp [KFeeDest.fee_destinations_loop, h]
    | some r => simp [KFeeDest.fee_destinations_loop, h, ih]

/-- closed form of the tail of `send_fee` (the stored number of destinations is the length of the map):
    no destination, or a slice of zero → nothing happens; otherwise the loop runs with the slice
    `⌊remaining / #destinations⌋` — the model's `St.sendFee` guards and `slice := rem / n` -/
theorem fee_destinations_eq (f : Nat → Nat → Nat → Nat → Option Nat) (ord rem : Nat)
    (ds : List (Nat × Nat)) :
    KFeeDest.fee_destinations ds ds.length rem f ord =
      if ds.length = 0 ∨ rem / ds.length = 0 then some ()
      else KFeeDest.fee_destinations_loop f ord (rem / ds.length) ds () := by
  k_defs [KFeeDest.fee_destinations]
  by_cases h0 : ds.length = 0
  · simp [h0]
  · have h0' : ¬ 0 = ds.length := fun x => h0 x.symm
    by_cases h1 : rem / ds.length = 0
    · simp [h0, h0', h1]
    · have h1' : ¬ 0 = rem / ds.length := fun x => h1 x.symm
      simp only [h0, h0', h1, h1', if_false, false_or]
      cases KFeeDest.fee_destinations_loop f ord (rem / ds.length) ds () <;> rfl

/-- exactly when does the tail of `send_fee` touch a destination at all: with a callee that ALWAYS
    aborts it still succeeds iff there is no destination or the slice is zero -/
theorem fee_destinations_no_call_iff (ord rem : Nat) (ds : List (Nat × Nat)) :
    KFeeDest.fee_destinations ds ds.length rem (fun _ _ _ _ => none) ord = some () ↔
      ds.length = 0 ∨ rem / ds.length = 0 := by
  rw [fee_destinations_eq]
  constructor
  · intro h
    by_cases hc : ds.length = 0 ∨ rem / ds.length = 0
    · exact hc
    · rw [if_neg hc] at h
      cases ds with
      | nil => simp at hc
      | cons d ds => obtain ⟨a, t⟩ := d; simp [KFeeDest.fee_destinations_loop] at h
  · intro hc; rw [if_pos hc]

/-- every destination is served with the same slice: the whole tail succeeds (when it distributes) iff
    each destination's call with `⌊rem / n⌋` succeeds -/
theorem fee_destinations_ok_iff (f : Nat → Nat → Nat → Nat → Option Nat) (ord rem : Nat)
    (ds : List (Nat × Nat)) (h : ¬ (ds.length = 0 ∨ rem / ds.length = 0)) :
    KFeeDest.fee_destinations ds ds.length rem f ord = some () ↔
      ∀ d ∈ ds, ∃ r, f ord (rem / ds.length) d.1 d.2 = some r := by
  rw [fee_destinations_eq, if_neg h, fee_destinations_loop_ok_iff]

example : KFeeDest.fee_destinations [(70, 1), (71, 2), (72, 1)] 3 100
    (fun _ slice _ _ => if slice = 33 then some 0 else none) 0 = some () := by decide
example : KFeeDest.fee_destinations [(70, 1), (71, 2), (72, 1)] 3 100
    (fun _ _ a _ => if a = 71 then none else some 0) 0 = none := by decide
example : KFeeDest.fee_destinations [(70, 1), (71, 2), (72, 1)] 3 2 (fun _ _ _ _ => none) 0 = some () := by decide
example : KFeeDest.fee_destinations [] 0 100 (fun _ _ _ _ => none) 0 = some () := by decide

end Mx.KFeeDest
