/-
  C13 — Safe price is the exact time-weighted average of start-of-round reserves.

  Statement: the safe price over rounds (s, e] equals the average of the reserves (and LP
  supply) that were in effect at the start of each round of the window, in the documented
  integer arithmetic, no matter how many operations happen inside one round and whether s and e
  fall on recorded observations, between them (interpolation), after the last one
  (extrapolation with current state) or across ring-buffer wrap-around.  A query that starts
  before the oldest retained observation, ends in the future, or has s ≥ e is rejected.

  Model: Core/Pair.lean (`SP.update` = `update_safe_price`, run first by every reserve-changing
  operation through `St.touch`) and Core/SafePrice.lean (the views).  Ghost: `G.log k` = the
  reserves and LP supply in effect when round `k` started (Lemmas/SafePriceRing.lean; its
  meaning is pinned down by `startRes_meaning` below).  `rsum f s e = Σ_{k∈(s,e]} f k`,
  `avg f s e = ⌊rsum f s e / (e − s)⌋`, `l1/l2/lS log` = the three components of the log.
  Ring capacity `cap ≥ 1` is arbitrary (65 536 in the contract).

  Out of scope (see Core/SafePrice.lean): the legacy fallback for observations stored without
  an LP accumulator — `no_legacy_observation` shows no history of this model produces one.

  Only property theorems live in this file; helper lemmas are in Lemmas/SafePrice*.lean.
-/
import MxModel.Lemmas.SafePriceView

namespace Mx.C13
open Mx Mx.Pair Mx.SafePrice

/-! ### the ghost log and the invariant over every history -/

/-- the ghost state only adds the log: its pair state is the model's state after the history -/
theorem ghost_is_model (t sp : Nat) (ad : Option Nat) (cap : Nat) (ops : List Op) :
    (grun (ginit t sp ad cap) ops).s = run (init t sp ad cap) ops :=
  grun_s _ _

/-- what the log means: if, after the history `pre`, the clock is moved to round `r`, every
    round `k` the move passes over is logged with the reserves and LP supply of that moment —
    the values in effect when round `k` started — and no later operation changes the entry -/
theorem startRes_meaning (t sp : Nat) (ad : Option Nat) (cap : Nat) (pre post : List Op)
    (r k : Nat) :
    let g1 := grun (ginit t sp ad cap) pre
    g1.s.round < k → k ≤ r →
      (grun (ginit t sp ad cap) (pre ++ Op.advance r :: post)).log k
        = ⟨g1.s.r1, g1.s.r2, g1.s.S⟩ := by
  intro g1 h1 h2
  rw [grun_append]
  show (grun (gstep g1 (Op.advance r)) post).log k = _
  have hst : step g1.s (Op.advance r) = some ({ g1.s with round := r }, {}) := by
    simp only [step]; rw [if_pos (by omega)]
  have hg : (gstep g1 (Op.advance r)).s.round = r ∧
      (gstep g1 (Op.advance r)).log k = ⟨g1.s.r1, g1.s.r2, g1.s.S⟩ := by
    unfold gstep
    rw [hst]
    exact ⟨rfl, by simp only []; rw [if_pos ⟨h1, h2⟩]⟩
  rw [grun_log_stable post _ (by omega), hg.2]

/-- after EVERY history of pair operations (any arguments, any configuration, any number of
    operations per round, any round gaps) the observation buffer satisfies the ring invariant -/
theorem ring_inv_run (t sp : Nat) (ad : Option Nat) (cap : Nat) (hc : 1 ≤ cap) (ops : List Op) :
    RingInv (grun (ginit t sp ad cap) ops) :=
  grun_inv ops (ginit_inv t sp ad cap hc)

/-- shape of the buffer after every history: never longer than the capacity, the index of the
    newest observation inside it, and while it is not full the newest is the last element -/
theorem ring_shape (t sp : Nat) (ad : Option Nat) (cap : Nat) (hc : 1 ≤ cap) (ops : List Op) :
    let p := (run (init t sp ad cap) ops).sp
    p.obs.length ≤ p.cap ∧ p.cur ≤ p.obs.length ∧ (p.obs ≠ [] → 1 ≤ p.cur) ∧
    (p.obs.length < p.cap → p.cur = p.obs.length) := by
  have h := (ring_inv_run t sp ad cap hc ops).shape
  rw [ghost_is_model] at h
  exact ⟨h.lenLe, h.curLe, h.curPos, h.notFull⟩

/-! ### write side -/

/-- an operation in the round of the newest observation records nothing (one observation per
    round, however many operations the round contains) … -/
theorem one_obs_per_round_same (s : St) (h : s.sp.last.round = s.round) : s.touch.sp = s.sp := by
  unfold St.touch SP.update
  simp only []
  split <;> rfl

/-- … the first operation of a new round records exactly one, taken from the PRE-operation
    reserves with weight = rounds since the previous observation … -/
theorem one_obs_per_round_new (t sp : Nat) (ad : Option Nat) (cap : Nat) (hc : 1 ≤ cap)
    (ops : List Op) :
    let s := run (init t sp ad cap) ops
    s.sp.last.round ≠ s.round → 0 < s.r1 → 0 < s.r2 → 0 < s.S →
      s.touch.sp.last = s.sp.last.next s.round s.r1 s.r2 s.S ∧
      logical s.touch.sp =
        (if s.sp.obs.length = s.sp.cap then (logical s.sp).tail else logical s.sp) ++
          [s.sp.last.next s.round s.r1 s.r2 s.S] := by
  intro s hne h1 h2 h3
  have hs := (ring_inv_run t sp ad cap hc ops).shape
  rw [ghost_is_model] at hs
  rcases update_cases hs s.round s.r1 s.r2 s.S ⟨h1, h2, h3⟩ with ⟨e, _⟩ | ⟨_, _, _, hl, _, hlg, _⟩
  · exact absurd e hne
  · exact ⟨hl, hlg⟩

/-- … so in every reachable state no two retained observations carry the same round -/
theorem one_obs_per_round (t sp : Nat) (ad : Option Nat) (cap : Nat) (hc : 1 ≤ cap)
    (ops : List Op) :
    ∀ a ∈ (run (init t sp ad cap) ops).sp.obs, ∀ b ∈ (run (init t sp ad cap) ops).sp.obs,
      a.round = b.round → a = b := by
  intro a ha b hb hab
  have hi := ring_inv_run t sp ad cap hc ops
  have hs := sorted_of_linked hi.linked
  rw [ghost_is_model] at hs
  have hpw := List.pairwise_iff_getElem.mp hs
  obtain ⟨i, hi1, rfl⟩ := List.getElem_of_mem (mem_logical.mpr ha)
  obtain ⟨j, hj1, rfl⟩ := List.getElem_of_mem (mem_logical.mpr hb)
  rcases Nat.lt_trichotomy i j with h | h | h
  · have := hpw i j hi1 hj1 h; omega
  · subst h; rfl
  · have := hpw j i hj1 hi1 h; omega

/-- **acc_inv**: in every reachable state, for any two retained observations `a` (logically
    earlier) and `b`: `b` is strictly later, its weight accumulator differs by the number of
    rounds between them, and each of its reserve / LP accumulators differs by the SUM OF THE
    START-OF-ROUND VALUES over the rounds `(a.round, b.round]` -/
theorem acc_inv (t sp : Nat) (ad : Option Nat) (cap : Nat) (hc : 1 ≤ cap) (ops : List Op) :
    let g := grun (ginit t sp ad cap) ops
    (logical g.s.sp).Pairwise (fun a b =>
      a.round < b.round ∧ b.w = a.w + (b.round - a.round) ∧
      b.acc1 = a.acc1 + rsum (l1 g.log) a.round b.round ∧
      b.acc2 = a.acc2 + rsum (l2 g.log) a.round b.round ∧
      b.accS = a.accS + rsum (lS g.log) a.round b.round) := by
  intro g
  exact (linked_pairwise (ring_inv_run t sp ad cap hc ops).linked).imp
    (fun h => ⟨h.2, h.1.w, h.1.acc1, h.1.acc2, h.1.accS⟩)

/-- **ring_sorted**: in logical order (physical `cur+1 … len`, then `1 … cur`) the rounds of the
    retained observations are strictly increasing, all lie in `[1, now]`, and the newest one is
    at `cur` -/
theorem ring_sorted (t sp : Nat) (ad : Option Nat) (cap : Nat) (hc : 1 ≤ cap) (ops : List Op) :
    let s := run (init t sp ad cap) ops
    (logical s.sp).Pairwise (fun a b => a.round < b.round) ∧
    (∀ o ∈ s.sp.obs, 1 ≤ o.round ∧ o.round ≤ s.round) ∧
    (s.sp.obs ≠ [] → (logical s.sp).getLast? = some s.sp.last) := by
  have hi := ring_inv_run t sp ad cap hc ops
  have h1 := sorted_of_linked hi.linked
  have h2 := hi.roundBnd
  have h3 := hi.shape
  rw [ghost_is_model] at h1 h2 h3
  exact ⟨h1, h2, fun hne => logical_getLast h3 hne⟩

/-- no history produces an observation without LP accumulator (the legacy fallback of
    `get_lp_tokens_safe_price` is unreachable in this model) -/
theorem no_legacy_observation (t sp : Nat) (ad : Option Nat) (cap : Nat) (hc : 1 ≤ cap)
    (ops : List Op) : ∀ o ∈ (run (init t sp ad cap) ops).sp.obs, 0 < o.accS := by
  have h := (ring_inv_run t sp ad cap hc ops).accPos
  rw [ghost_is_model] at h
  exact h

/-! ### read side -/

/-- **binsearch_correct**, at full strength: for ANY buffer of any capacity, fill level and wrap
    position whose shape is one `update_safe_price` can produce and whose rounds increase in
    logical order, and any round `q` with `oldest.round ≤ q < newest.round`: the contract's binary
    search (its bounds, its probes, its returned index) either returns the stored observation of
    round `q`, or it misses and then the two elements the interpolation will use — the last probed
    element and its ring neighbour, chosen as the contract chooses them, including the step from
    the last physical slot to slot 1 — are CONSECUTIVE retained observations `L`, `R` (positions
    `k`, `k+1` of the logical order) with `L.round < q < R.round` -/
theorem binsearch_correct (p : SP) (hs : Shape p) (hsorted : SortedRing p) (old : Obs)
    (hold : oldest p = some old) (q : Nat) (h1 : old.round ≤ q) (h2 : q < p.last.round) :
    ∃ o si, binSearch p q = some (o, si) ∧
      ((o ∈ p.obs ∧ o.round = q ∧ get? p si = some o) ∨
       (o = Obs.zero ∧ ∃ L R k, neighbours p q si = some (L, R) ∧
          (logical p)[k]? = some L ∧ (logical p)[k + 1]? = some R ∧
          L.round < q ∧ q < R.round)) := by
  obtain ⟨o, si, hb, hres⟩ := binSearch_spec hs hsorted hold h1 h2
  refine ⟨o, si, hb, ?_⟩
  rcases hres with ⟨e1, e2, e3, e4⟩ | ⟨e1, iL, iR, a1, a2, b1, b2, hp, hl, hr, hn⟩
  · exact Or.inl ⟨by rw [e1]; exact nth_mem e3 e4, e2, by rw [e1]; exact get?_some e3 e4⟩
  · refine Or.inr ⟨e1, nth p iL, nth p iR, pos p iL, hn, ?_, ?_, hl, hr⟩
    · have := logical_getElem hs.curLe a1 a2
      rw [← this]
      exact List.getElem?_eq_getElem _
    · have := logical_getElem hs.curLe b1 b2
      rw [hp, ← this]
      exact List.getElem?_eq_getElem _

/-- the same for every reachable state: the hypotheses of `binsearch_correct` hold after every
    history -/
theorem binsearch_correct_run (t sp : Nat) (ad : Option Nat) (cap : Nat) (hc : 1 ≤ cap)
    (ops : List Op) :
    let p := (run (init t sp ad cap) ops).sp
    Shape p ∧ SortedRing p := by
  have hi := ring_inv_run t sp ad cap hc ops
  have h1 := hi.shape
  have h2 := sorted_of_linked hi.linked
  rw [ghost_is_model] at h1 h2
  exact ⟨h1, h2⟩

/-- **interp_exact** (arithmetic): with weights `lw = b − q`, `rw = q − a` between accumulators
    `A` at round `a` and `A + (b−a)·x` at round `b`, the contract's floor division
    `(lw·A + rw·B) / (lw + rw)` is EXACTLY `A + (q−a)·x` — nothing is rounded away -/
theorem interp_exact (A x a q b : Nat) (h1 : a < q) (h2 : q < b) :
    ((b - q) * A + (q - a) * (A + (b - a) * x)) / ((b - q) + (q - a)) = A + (q - a) * x :=
  interp_kernel A x a q b h1 h2

/-- **interp_exact** (on observations): interpolating between two observations recorded one
    right after the other yields exactly the observation of round `q`: round `q`, weight
    `L.w + (q − L.round)`, accumulators `L` + Σ of the start-of-round values over `(L.round, q]` -/
theorem interp_exact_obs (log : Log) (L R : Obs) (h : Link log L R) (q : Nat)
    (h1 : L.round < q) (h2 : q < R.round) :
    interp L R q = some ⟨L.acc1 + rsum (l1 log) L.round q, L.acc2 + rsum (l2 log) L.round q,
      L.accS + rsum (lS log) L.round q, L.w + (q - L.round), q⟩ := by
  obtain ⟨o, ho, hr, ht⟩ := interp_tele h h1 h2
  rw [ho]
  have := ht.eq_ideal
  rw [hr] at this
  exact congrArg some this

/-- **extrapolate_exact**: after the newest observation the view simulates an observation from
    the CURRENT reserves; in every reachable state that is exactly the newest observation plus the
    start-of-round values of every round since -/
theorem extrapolate_exact (t sp : Nat) (ad : Option Nat) (cap : Nat) (hc : 1 ≤ cap)
    (ops : List Op) (q : Nat) :
    let g := grun (ginit t sp ad cap) ops
    g.s.sp.obs ≠ [] → g.s.sp.last.round < q → q ≤ g.s.round →
      g.s.sp.last.next q g.s.r1 g.s.r2 g.s.S =
        ⟨g.s.sp.last.acc1 + rsum (l1 g.log) g.s.sp.last.round q,
         g.s.sp.last.acc2 + rsum (l2 g.log) g.s.sp.last.round q,
         g.s.sp.last.accS + rsum (lS g.log) g.s.sp.last.round q,
         g.s.sp.last.w + (q - g.s.sp.last.round), q⟩ := by
  intro g hne h1 h2
  have hi : RingInv g := ring_inv_run t sp ad cap hc ops
  have hr0 : g.s.sp.last.round ≠ 0 := by
    have := (hi.roundBnd _ (last_mem hi.shape hne)).1; omega
  have ht := next_tele hr0 h1 (hi.live hne) (fun k a b => hi.current hne k a (by omega))
  exact ht.eq_ideal

/-- **lookup_exact**: in every reachable state, for every round `q` from the oldest retained
    observation up to the current round, `getPriceObservation` / the internal lookup returns the
    ideal observation of round `q` — whether `q` is the newest observation, lies after it, is a
    stored observation, or falls between two stored observations (anywhere in the rotated ring) -/
theorem lookup_exact (t sp : Nat) (ad : Option Nat) (cap : Nat) (hc : 1 ≤ cap) (ops : List Op)
    (old : Obs) (q : Nat) :
    let g := grun (ginit t sp ad cap) ops
    oldest g.s.sp = some old → old.round ≤ q → q ≤ g.s.round →
      lookup g.s q = some (ideal g.log old q) ∧
      getPriceObservation g.s q = some (ideal g.log old q) := by
  intro g hold h1 h2
  have hi : RingInv g := ring_inv_run t sp ad cap hc ops
  have hl := SafePrice.lookup_exact hi hold h1 h2
  refine ⟨hl, ?_⟩
  unfold getPriceObservation
  rw [hold]
  simp only [Option.bind_eq_bind, Option.bind_some]
  rw [req_of h1]
  exact hl

/-- **safe_price_eq**: in every reachable state and for every window `(s, e]` inside the retained
    range, the weighted amounts are the floor averages of the start-of-round reserves and LP
    supply over the window, `getSafePrice` returns `⌊in · avg_out / avg_in⌋`, and
    `getLpTokensSafePrice` returns `⌊liq · avg_r / avg_S⌋` for both tokens -/
theorem safe_price_eq (t sp : Nat) (ad : Option Nat) (cap : Nat) (hc : 1 ≤ cap) (ops : List Op)
    (old : Obs) (s e amt : Nat) :
    let g := grun (ginit t sp ad cap) ops
    oldest g.s.sp = some old → old.round ≤ s → s < e → e ≤ g.s.round →
      getSafePrice g.s s e (some .ab) amt
        = some (amt * avg (l2 g.log) s e / avg (l1 g.log) s e) ∧
      getSafePrice g.s s e (some .ba) amt
        = some (amt * avg (l1 g.log) s e / avg (l2 g.log) s e) ∧
      getLpSafePrice g.s s e amt
        = some (amt * avg (l1 g.log) s e / avg (lS g.log) s e,
                amt * avg (l2 g.log) s e / avg (lS g.log) s e) := by
  intro g hold h1 h2 h3
  have hi : RingInv g := ring_inv_run t sp ad cap hc ops
  have hw := window_exact hi hold h1 h2 h3
  obtain ⟨p1, p2, p3⟩ := avg_pos hi hold h1 h2 h3
  refine ⟨?_, ?_, ?_⟩
  · unfold getSafePrice
    rw [hw]
    simp only [Option.bind_eq_bind, Option.bind_some, priceOf]
    rw [req_of (by omega)]
    rfl
  · unfold getSafePrice
    rw [hw]
    simp only [Option.bind_eq_bind, Option.bind_some, priceOf]
    rw [req_of (by omega)]
    rfl
  · unfold getLpSafePrice
    rw [hw]
    simp only [Option.bind_eq_bind, Option.bind_some, Option.pure_def, lpWorth]
    rw [if_neg (by omega)]

/-- the offset views and the `updateAndGet…` endpoints are the same computation on the window
    `(now − offset, now]`; the default offset is `min(now − oldest.round, 600)` -/
theorem offset_views (s : St) (off ts : Nat) (d : Option Dir) (amt : Nat) :
    (0 < off → off < s.round →
      getSafePriceByRoundOffset s off d amt = getSafePrice s (s.round - off) s.round d amt ∧
      getLpSafePriceByRoundOffset s off amt = getLpSafePrice s (s.round - off) s.round amt) ∧
    (¬ (0 < off ∧ off < s.round) →
      getSafePriceByRoundOffset s off d amt = none ∧ getLpSafePriceByRoundOffset s off amt = none) ∧
    getSafePriceByTimestampOffset s ts d amt = getSafePriceByRoundOffset s (ts / 6) d amt ∧
    getLpSafePriceByTimestampOffset s ts amt = getLpSafePriceByRoundOffset s (ts / 6) amt ∧
    updateAndGetSafePrice s d amt = getSafePriceByDefaultOffset s d amt ∧
    updateAndGetPosition s amt = getLpSafePriceByDefaultOffset s amt ∧
    (∀ old, oldest s.sp = some old → old.round ≤ s.round →
      getSafePriceByDefaultOffset s d amt
        = getSafePrice s (s.round - min (s.round - old.round) 600) s.round d amt ∧
      getLpSafePriceByDefaultOffset s amt
        = getLpSafePrice s (s.round - min (s.round - old.round) 600) s.round amt) := by
  refine ⟨fun h1 h2 => ?_, fun h => ?_, rfl, rfl, rfl, rfl, fun old hold hle => ?_⟩
  · simp only [getSafePriceByRoundOffset, getLpSafePriceByRoundOffset, offsetStart,
      req_of (show 0 < off ∧ off < s.round from ⟨h1, h2⟩), Option.bind_eq_bind, Option.bind_some,
      Option.pure_def, and_self]
  · simp only [getSafePriceByRoundOffset, getLpSafePriceByRoundOffset, offsetStart,
      req_eq_none.mpr h, Option.bind_eq_bind, Option.bind_none, and_self]
  · simp only [getSafePriceByDefaultOffset, getLpSafePriceByDefaultOffset, defaultStart, hold,
      sub?_of_le hle, Option.bind_eq_bind, Option.bind_some, Option.pure_def, DEFAULT_OFFSET,
      and_self]

/-- **query_guards**: a window with `s ≥ e`, a window starting before the oldest retained
    observation (or on an empty buffer), and — in every reachable state — a window ending after
    the current round are all rejected, by the price view and by the LP view; a single-round
    lookup outside `[oldest, now]` is rejected too -/
theorem query_guards (t sp : Nat) (ad : Option Nat) (cap : Nat) (hc : 1 ≤ cap) (ops : List Op)
    (s e : Nat) (d : Option Dir) (amt : Nat) :
    let st := run (init t sp ad cap) ops
    (e ≤ s → getSafePrice st s e d amt = none ∧ getLpSafePrice st s e amt = none) ∧
    (∀ old, oldest st.sp = some old → s < old.round →
      getSafePrice st s e d amt = none ∧ getLpSafePrice st s e amt = none ∧
      getPriceObservation st s = none) ∧
    (st.sp.obs = [] → getSafePrice st s e d amt = none ∧ getLpSafePrice st s e amt = none) ∧
    (st.round < e → getSafePrice st s e d amt = none ∧ getLpSafePrice st s e amt = none ∧
      getPriceObservation st e = none) := by
  intro st
  have hi := ring_inv_run t sp ad cap hc ops
  have hst : (grun (ginit t sp ad cap) ops).s = st := ghost_is_model t sp ad cap ops
  have hnone : ∀ a b, window st a b = none →
      getSafePrice st a b d amt = none ∧ getLpSafePrice st a b amt = none := by
    intro a b h
    simp only [getSafePrice, getLpSafePrice, h, Option.bind_eq_bind, Option.bind_none, and_self]
  refine ⟨fun h => hnone _ _ (window_none_of_order st h), fun old hold h => ?_,
    fun h => hnone _ _ (window_none_of_empty st h s e), fun h => ?_⟩
  · have := hnone _ _ (window_none_of_old st hold (en := e) h)
    refine ⟨this.1, this.2, ?_⟩
    unfold getPriceObservation
    rw [hold]
    simp only [Option.bind_eq_bind, Option.bind_some]
    rw [req_eq_none.mpr (by omega)]
    rfl
  · have hw : window st s e = none := by
      rw [← hst]; exact window_none_of_future hi (by rw [hst]; exact h)
    have := hnone _ _ hw
    refine ⟨this.1, this.2, ?_⟩
    unfold getPriceObservation
    cases oldest st.sp with
    | none => rfl
    | some old =>
      simp only [Option.bind_eq_bind, Option.bind_some]
      cases req (old.round ≤ e) with
      | none => rfl
      | some u =>
        simp only [Option.bind_some]
        rw [← hst]
        exact lookup_none_of_future hi (by rw [hst]; exact h)

/-! ### non-vacuity -/

/-- a concrete history on a capacity-4 ring: several operations per round, gaps of thousands of
    rounds, the ring wraps (physical order 4005, 4100, 20, 4000 with the newest at index 2).
    The hypotheses of the theorems above are live on it: the window (30, 4050] interpolates in
    the older part (second search interval) and in the newer part; the LP window (4003, 4150]
    starts between the LAST physical slot and slot 1 (the wrap seam) and ends after the newest
    observation (extrapolation); the three guards reject. -/
example :
    let s := run (init 300 50 none 4)
      [.cfg (.setState .active), .addLiq 1000000 2000000 1 1, .advance 3, .swapIn .ab 10000 1,
       .swapIn .ba 5000 1, .advance 7, .swapOut .ba 900000 1000, .advance 20,
       .addLiq 500000 1000000 1 1, .removeLiq 1000 1 1, .advance 4000, .swapIn .ab 777 1,
       .advance 4005, .swapIn .ba 99999 1, .advance 4100, .swapIn .ab 1 1, .advance 4200]
    s.sp.obs.map (·.round) = [4005, 4100, 20, 4000] ∧ s.sp.cur = 2 ∧
    (oldest s.sp).map (·.round) = some 20 ∧
    (binSearch s.sp 30).map (·.2) = some 4 ∧
    (binSearch s.sp 4003).map (·.2) = some 4 ∧
    (neighbours s.sp 4003 4).map (fun x => (x.1.round, x.2.round)) = some (4000, 4005) ∧
    (binSearch s.sp 4050).map (·.2) = some 1 ∧
    getSafePrice s 30 4050 (some .ab) 1000000 = some 1975909 ∧
    getSafePrice s 20 4200 (some .ba) 1000000 = some 504929 ∧
    getLpSafePrice s 4003 4150 1000000 = some (974734, 2052158) ∧
    getSafePriceByDefaultOffset s (some .ab) 1000000 = some 2016665 ∧
    getSafePrice s 19 4050 (some .ab) 1000000 = none ∧
    getSafePrice s 30 4201 (some .ab) 1000000 = none ∧
    getSafePrice s 30 30 (some .ab) 1000000 = none := by
  decide

/-- the interpolation kernel on numbers that do not divide evenly anywhere else -/
example : ((20 - 13) * 1000003 + (13 - 7) * (1000003 + (20 - 7) * 12347)) / ((20 - 13) + (13 - 7))
    = 1000003 + (13 - 7) * 12347 := by decide

end Mx.C13
