/-
  C05 (farm, farm-with-locked-rewards), last clause — "no legitimate claim / exit fails because an internal
  counter would go negative" — for EVERY legitimate caller (audit-session3 item 22).

  `C05Budget.exit_always_succeeds` / `claim_always_succeeds` are stated for the holder acting for himself
  (`opt_orig_caller = none`).  The property's quantifier covers every legitimate caller; the farm contracts
  have two more kinds:

    * a contract on the SC whitelist that passes an ORIGINAL CALLER (`exitFarm(opt_orig_caller)`,
      `claimRewards(opt_orig_caller)`): it holds the position token, the boosted claim / reward / energy are
      the original caller's;
    * an agent authorised in the permissions hub (`claimRewardsOnBehalf`): it holds the position token
      whose recorded owner authorised it; rewards go to that owner.

  For every reachable state (both kinds of farm, any history) the theorems below say that such a call
  SUCCEEDS under exactly the guards the code has — and the guards are listed as an `↔`:

      exit    : contract active ∧ amount ≠ 0 ∧ caller holds the amount ∧ (no original caller ∨ caller ∈ SC whitelist)
      claim   : the same
      claimOB : contract active ∧ amount ≠ 0 ∧ caller holds the amount ∧
                caller ∉ hub blacklist ∧ (recorded owner, caller) ∈ hub whitelist
      enter   : caller is an account ∧ contract active ∧ amount ≠ 0 ∧ (no original caller ∨ caller ∈ SC whitelist)
      enterOB : caller is an account ∧ contract active ∧ amount ≠ 0 ∧
                caller ∉ hub blacklist ∧ (user, caller) ∈ hub whitelist
    The general forms (`*_list_*`: claim / claimOB with any number of payments, enter / enterOB with additional
    position tokens to merge) replace "caller holds the amount" by "the ESDT multi-transfer of the payments is
    valid" (`takePayments` succeeds); claimOB then needs all payments to record one owner, enterOB that every
    additional token records the user.  Also: `claimBoostedRewards` (caller = user ∧ position ≠ 0).

  (that the caller is an account of the world and that the nonce is a position token are consequences of the
  holding in a reachable state).  No internal counter — reserve, supply, owner totals, weekly pools, energy
  buckets, balances — appears.

  Hypotheses of the run-level theorems (as in C05Budget): distinct accounts (`users.Nodup`), `dsc ≠ 0`.
  Lemmas: Lemmas/FarmLiveAll.lean (generalisation of Lemmas/FarmLive.lean / FarmWeekLive.lean over caller ≠ user).
-/
import MxModel.Lemmas.FarmLiveAll
import MxModel.Props.C05Budget

namespace Mx.C05Callers
open Mx.Farm

/-- all invariants of a reachable farm state that the liveness lemmas use, for an arbitrary history
    (`GoodOps` is discharged as in `C05Budget.no_underflow_full_holds`: a `setFactors` with
    `cE + cF = 0` is a failed transaction) -/
theorem reachable_all (kind : Kind) (same : Bool) (dsc pb : Nat) (produce : Bool)
    (users : List Nat) (e0 : Nat) (hnd : users.Nodup) (hd : dsc ≠ 0) (ops : List Op) :
    let s := run (init kind same dsc pb produce users e0) ops
    Acct s ∧ PosInv s ∧ PotInv s ∧ PoolInv s ∧ XInv s ∧ s.dsc ≠ 0 ∧ WInv s ∧ WeekPos s ∧
      ∃ W, PM s W := by
  intro s
  have hs : s = run (init kind same dsc pb produce users e0) (ops.filter goodOp) :=
    C05Budget.run_filter_good ops _
  have hg : GoodOps (ops.filter goodOp) :=
    goodOps_of_all (List.all_eq_true.mpr fun x hx => (List.mem_filter.mp hx).2)
  obtain ⟨hA, hP, hK, hI, hdsc⟩ := reachable_invs kind same dsc pb produce users e0 hnd ops
  obtain ⟨W, hW⟩ := (reachable_weekPos kind same dsc pb produce users e0 hnd ops).week
  refine ⟨hA, hP, hK, hI, reachable_xinv kind same dsc pb produce users e0 ops, by rw [hdsc]; exact hd,
    reachable_winv kind same dsc pb produce users e0 ops,
    reachable_weekPos kind same dsc pb produce users e0 hnd ops, W, ?_⟩
  have hW' : (run (init kind same dsc pb produce users e0) (ops.filter goodOp)).week = some W := by
    rw [← hs]; exact hW
  have := reachable_paidInv kind same dsc pb produce users e0 hnd (ops.filter goodOp) hg W hW'
  rw [← hs] at this
  exact this

/-- **exit: every legitimate caller.**  In every reachable state of a farm (both kinds, any history),
    `exitFarm(opt_orig_caller)` with payment `(nonce n, amount a)` sent by `c` succeeds IF AND ONLY IF
    the contract is active, `a ≠ 0`, `c` holds `a` units of `n`, and either no original caller is passed or
    `c` is on the SC whitelist (then ANY original caller `orig` is accepted: the boosted claim, the reward
    and the energy clearing are `orig`'s).  No internal counter stands in the way. -/
theorem exit_succeeds_iff_guards (kind : Kind) (same : Bool) (dsc pb : Nat) (produce : Bool)
    (users : List Nat) (e0 : Nat) (hnd : users.Nodup) (hd : dsc ≠ 0) (ops : List Op)
    (c : Nat) (opt : Option Nat) (n a : Nat) :
    let s := run (init kind same dsc pb produce users e0) ops
    (step s (.exit c opt n a)).isSome = true ↔
      (s.active = true ∧ a ≠ 0 ∧ a ≤ s.hold c n ∧ (opt = none ∨ c ∈ s.scWl)) := by
  intro s
  constructor
  · intro h
    obtain ⟨r, hr⟩ := Option.isSome_iff_exists.mp h
    exact exitFarm_guards (known_some hr).2
  · rintro ⟨hact, ha, hle, ho⟩
    obtain ⟨hA, hP, hK, hI, hX, hd', hWI, hWP, W, hPM⟩ :=
      reachable_all kind same dsc pb produce users e0 hnd hd ops
    have hne : s.hold c n ≠ 0 := by omega
    have hu : c ∈ s.users := (hP.dom c n hne).1
    obtain ⟨o, ho'⟩ : ∃ o, origCaller s c opt = some o := by
      rcases ho with rfl | hw
      · exact ⟨c, rfl⟩
      · cases opt with
        | none => exact ⟨c, rfl⟩
        | some o => exact ⟨o, origCaller_some hw⟩
    show (if c ∈ s.users then _ else none).isSome = true
    rw [if_pos hu]
    exact exitFarm_gen_always hA hP hK hI hX hd' hPM hWI hWP ho' hact ha hle

/-- the whitelisted-contract case spelled out: a contract `c` on the SC whitelist that holds `a > 0` units
    of position `n` can exit with them for ANY original caller `orig`, in every reachable state of an active
    farm -/
theorem exit_with_orig_caller_succeeds (kind : Kind) (same : Bool) (dsc pb : Nat) (produce : Bool)
    (users : List Nat) (e0 : Nat) (hnd : users.Nodup) (hd : dsc ≠ 0) (ops : List Op) (c orig n a : Nat) :
    let s := run (init kind same dsc pb produce users e0) ops
    s.active = true → c ∈ s.scWl → a ≠ 0 → a ≤ s.hold c n →
      (step s (.exit c (some orig) n a)).isSome = true := by
  intro s hact hw ha hle
  exact (exit_succeeds_iff_guards kind same dsc pb produce users e0 hnd hd ops c (some orig) n a).mpr
    ⟨hact, ha, hle, Or.inr hw⟩

/-- **claim: every legitimate caller.**  `claimRewards(opt_orig_caller)` with one payment `(n, a)` sent by
    `c` succeeds IF AND ONLY IF the contract is active, `a ≠ 0`, `c` holds `a` units of `n`, and either no
    original caller is passed or `c` is on the SC whitelist. -/
theorem claim_succeeds_iff_guards (kind : Kind) (same : Bool) (dsc pb : Nat) (produce : Bool)
    (users : List Nat) (e0 : Nat) (hnd : users.Nodup) (hd : dsc ≠ 0) (ops : List Op)
    (c : Nat) (opt : Option Nat) (n a : Nat) :
    let s := run (init kind same dsc pb produce users e0) ops
    (step s (.claim c opt [(n, a)])).isSome = true ↔
      (s.active = true ∧ a ≠ 0 ∧ a ≤ s.hold c n ∧ (opt = none ∨ c ∈ s.scWl)) := by
  intro s
  constructor
  · intro h
    obtain ⟨r, hr⟩ := Option.isSome_iff_exists.mp h
    exact claimRewards_guards (known_some hr).2
  · rintro ⟨hact, ha, hle, ho⟩
    obtain ⟨hA, hP, hK, hI, hX, hd', hWI, hWP, W, hPM⟩ :=
      reachable_all kind same dsc pb produce users e0 hnd hd ops
    have hne : s.hold c n ≠ 0 := by omega
    have hu : c ∈ s.users := (hP.dom c n hne).1
    obtain ⟨o, ho'⟩ : ∃ o, origCaller s c opt = some o := by
      rcases ho with rfl | hw
      · exact ⟨c, rfl⟩
      · cases opt with
        | none => exact ⟨c, rfl⟩
        | some o => exact ⟨o, origCaller_some hw⟩
    show (if c ∈ s.users then _ else none).isSome = true
    rw [if_pos hu]
    exact claimRewards_gen_always hA hP hK hI hX hd' hPM hWI hWP ho' hact ha hle

/-- **claim on behalf: the hub-authorised agent.**  `claimRewardsOnBehalf` with one payment `(n, a)` sent by
    the agent `c` succeeds IF AND ONLY IF the contract is active, `a ≠ 0`, `c` holds `a` units of `n`, `c` is
    not on the hub's blacklist and the owner RECORDED in the position has whitelisted `c` in the hub. -/
theorem claim_on_behalf_succeeds_iff_guards (kind : Kind) (same : Bool) (dsc pb : Nat) (produce : Bool)
    (users : List Nat) (e0 : Nat) (hnd : users.Nodup) (hd : dsc ≠ 0) (ops : List Op) (c n a : Nat) :
    let s := run (init kind same dsc pb produce users e0) ops
    (step s (.claimOB c [(n, a)])).isSome = true ↔
      (s.active = true ∧ a ≠ 0 ∧ a ≤ s.hold c n ∧
        ∃ att, s.attrs n = some att ∧ c ∉ s.hubBl ∧ (att.owner, c) ∈ s.hubWl) := by
  intro s
  constructor
  · intro h
    obtain ⟨r, hr⟩ := Option.isSome_iff_exists.mp h
    obtain ⟨h1, h2, h3, att, hat, hh⟩ := claimRewardsOnBehalf_guards (known_some hr).2
    exact ⟨h1, h2, h3, att, hat, (hubAllows_iff s att.owner c).mp hh⟩
  · rintro ⟨hact, ha, hle, att, hat, hbl, hwl⟩
    obtain ⟨hA, hP, hK, hI, hX, hd', hWI, hWP, W, hPM⟩ :=
      reachable_all kind same dsc pb produce users e0 hnd hd ops
    have hne : s.hold c n ≠ 0 := by omega
    have hu : c ∈ s.users := (hP.dom c n hne).1
    show (if c ∈ s.users then _ else none).isSome = true
    rw [if_pos hu]
    exact claimRewardsOnBehalf_always hA hP hK hI hX hd' hPM hWI hWP hat
      ((hubAllows_iff s att.owner c).mpr ⟨hbl, hwl⟩) hact ha hle

/-- the history of the non-vacuity examples: contract 7 is put on the SC whitelist and enters for user 1
    (position 1, held by 7, owner 1); user 1 authorises agent 2 in the hub, agent 2 enters on behalf of 1
    (position 2, held by 2, owner 1); a week with a boosted pool passes -/
def callersOps : List Op :=
  [.setFactors OWNER ⟨10, 3, 2, 1, 1⟩, .setPct OWNER 2500, .setEnergy 1 1000000 0 1000, .scWhitelist 7,
   .hubWhitelist 1 2, .enter 7 (some 1) 3000 [], .enterOB 2 1 1000 [], .advance 10 6,
   .claim 7 (some 1) [(1, 3000)], .advance 20 7]

/-- non-vacuity (closed): in the reached state (week 2, week 1's pool 2500 pending) the whitelisted contract 7
    holds position 3 recorded for user 1, the agent 2 holds position 2 recorded for user 1; the guards hold;
    exit / claim by 7 for original caller 1 succeed and pay user 1's boosted share; the claim on behalf by 2
    succeeds; the same calls by the non-whitelisted / non-authorised account 5 … are not legitimate:
    a non-whitelisted holder passing an original caller fails, an unauthorised agent fails -/
example :
    let s := run (init .mint false 1000000000000 1000 true [1, 2, 7] 0) callersOps
    s.active = true ∧ s.week = some 2 ∧ s.scWl = [7] ∧ s.hubWl = [(1, 2)] ∧
    s.hold 7 3 = 3000 ∧ s.hold 2 2 = 1000 ∧ (s.attrs 3).map (·.owner) = some 1 ∧
    (s.attrs 2).map (·.owner) = some 1 ∧
    (step s (.exit 7 (some 1) 3 3000)).map (fun r => (r.2.farming, r.2.base, r.2.boosted)) = some (3000, 5625, 2500) ∧
    (step s (.claim 7 (some 1) [(3, 1000)])).map (fun r => (r.2.base, r.2.boosted)) = some (1875, 2500) ∧
    (step s (.claimOB 2 [(2, 1000)])).map (fun r => (r.2.base, r.2.boosted)) = some (3750, 2500) ∧
    (step s (.exit 2 (some 1) 2 1000)).isSome = false ∧
    (step s (.claimOB 7 [(3, 3000)])).isSome = false := by
  decide

/-- **enter: every legitimate caller.**  `enterFarm(opt_orig_caller)` with `amt` fresh farming tokens (no extra
    position tokens) sent by the account `c` succeeds IF AND ONLY IF the contract is active, `amt ≠ 0` and either
    no original caller is passed or `c` is on the SC whitelist (then the position is recorded for ANY `orig`).
    (`c ∈ s.users`: only accounts of the world act; the model keeps no user wallets, so "c owns `amt` farming
    tokens" is the ESDT transfer's own precondition, outside the contract.)  In particular the boosted claim of
    the user, the direct reserve subtraction of `claim_only_boosted_payment`, the settlement, the reward
    payment and `update_energy_and_progress` cannot fail. -/
theorem enter_succeeds_iff_guards (kind : Kind) (same : Bool) (dsc pb : Nat) (produce : Bool)
    (users : List Nat) (e0 : Nat) (hnd : users.Nodup) (hd : dsc ≠ 0) (ops : List Op)
    (c : Nat) (opt : Option Nat) (amt : Nat) :
    let s := run (init kind same dsc pb produce users e0) ops
    (step s (.enter c opt amt [])).isSome = true ↔
      (c ∈ s.users ∧ s.active = true ∧ amt ≠ 0 ∧ (opt = none ∨ c ∈ s.scWl)) := by
  intro s
  constructor
  · intro h
    obtain ⟨r, hr⟩ := Option.isSome_iff_exists.mp h
    exact ⟨(known_some hr).1, enterFarm_guards (known_some hr).2⟩
  · rintro ⟨hu, hact, ha, ho⟩
    obtain ⟨hA, _, hK, hI, hX, hd', hWI, hWP, W, hPM⟩ :=
      reachable_all kind same dsc pb produce users e0 hnd hd ops
    obtain ⟨o, ho'⟩ : ∃ o, origCaller s c opt = some o := by
      rcases ho with rfl | hw
      · exact ⟨c, rfl⟩
      · cases opt with
        | none => exact ⟨c, rfl⟩
        | some o => exact ⟨o, origCaller_some hw⟩
    show (if c ∈ s.users then _ else none).isSome = true
    rw [if_pos hu]
    exact enterFarm_fresh_always hA hK hI hX hd' hPM hWI hWP ho' hact ha

/-- **enter on behalf: the hub-authorised agent.**  `enterFarmOnBehalf(user)` with `amt` fresh farming tokens
    sent by the account `c` succeeds IF AND ONLY IF the contract is active, `amt ≠ 0`, `c` is not on the hub's
    blacklist and `user` has whitelisted `c` in the hub. -/
theorem enter_on_behalf_succeeds_iff_guards (kind : Kind) (same : Bool) (dsc pb : Nat) (produce : Bool)
    (users : List Nat) (e0 : Nat) (hnd : users.Nodup) (hd : dsc ≠ 0) (ops : List Op) (c u amt : Nat) :
    let s := run (init kind same dsc pb produce users e0) ops
    (step s (.enterOB c u amt [])).isSome = true ↔
      (c ∈ s.users ∧ s.active = true ∧ amt ≠ 0 ∧ c ∉ s.hubBl ∧ (u, c) ∈ s.hubWl) := by
  intro s
  constructor
  · intro h
    obtain ⟨r, hr⟩ := Option.isSome_iff_exists.mp h
    obtain ⟨h1, h2, hh⟩ := enterFarmOnBehalf_guards (known_some hr).2
    exact ⟨(known_some hr).1, h1, h2, (hubAllows_iff s u c).mp hh⟩
  · rintro ⟨hu, hact, ha, hbl, hwl⟩
    obtain ⟨hA, _, hK, hI, hX, hd', hWI, hWP, W, hPM⟩ :=
      reachable_all kind same dsc pb produce users e0 hnd hd ops
    show (if c ∈ s.users then _ else none).isSome = true
    rw [if_pos hu]
    exact enterFarmOnBehalf_fresh_always hA hK hI hX hd' hPM hWI hWP
      ((hubAllows_iff s u c).mpr ⟨hbl, hwl⟩) hact ha

/-- non-vacuity for the two enter theorems, in the same state: the whitelisted contract enters for user 1 and
    the agent enters on behalf of user 1 — both are paid user 1's pending boosted share 2500 of week 1 on the
    way; a non-whitelisted account passing an original caller and a non-authorised agent fail -/
example :
    let s := run (init .mint false 1000000000000 1000 true [1, 2, 7] 0) callersOps
    (step s (.enter 7 (some 1) 500 [])).map (fun r => (r.2.nonce, r.2.amt, r.2.boosted)) = some (4, 500, 2500) ∧
    (step s (.enterOB 2 1 500 [])).map (fun r => (r.2.nonce, r.2.amt, r.2.boosted)) = some (4, 500, 2500) ∧
    (step s (.enter 2 (some 1) 500 [])).isSome = false ∧
    (step s (.enterOB 7 1 500 [])).isSome = false := by
  decide

/-- **claimBoostedRewards.**  `claimBoostedRewards(opt_user)` sent by `c` succeeds IF AND ONLY IF the contract is
    active, the user named is the caller himself (`allowExternalClaim` cannot be set in this code base, so a claim
    for another user is never legitimate) and the caller has a recorded farm position
    (`userTotalFarmPosition ≠ 0`).  The live-cache subtraction `reward_reserve −= boosted` (finding F1's site)
    cannot fail. -/
theorem claim_boosted_succeeds_iff_guards (kind : Kind) (same : Bool) (dsc pb : Nat) (produce : Bool)
    (users : List Nat) (e0 : Nat) (hnd : users.Nodup) (hd : dsc ≠ 0) (ops : List Op)
    (c : Nat) (optUser : Option Nat) :
    let s := run (init kind same dsc pb produce users e0) ops
    (step s (.claimBoosted c optUser)).isSome = true ↔
      (c ∈ s.users ∧ s.active = true ∧ optUser.getD c = c ∧ s.userTotal c ≠ 0) := by
  intro s
  constructor
  · intro h
    obtain ⟨r, hr⟩ := Option.isSome_iff_exists.mp h
    exact ⟨(known_some hr).1, claimBoostedRewards_guards (known_some hr).2⟩
  · rintro ⟨hu, hact, hself, ht⟩
    obtain ⟨hA, hP, hK, hI, hX, hd', hWI, hWP, W, hPM⟩ :=
      reachable_all kind same dsc pb produce users e0 hnd hd ops
    show (if c ∈ s.users then _ else none).isSome = true
    rw [if_pos hu]
    exact claimBoostedRewards_always hA hP hK hI hX hd' hPM hWI hWP hself ht hact

/-- non-vacuity: user 1 (recorded owner of 4000 units held by 7 and 2) claims the pending boosted 2500 himself;
    the contract 7, which holds tokens but has no recorded position, cannot -/
example :
    let s := run (init .mint false 1000000000000 1000 true [1, 2, 7] 0) callersOps
    s.userTotal 1 = 4000 ∧ s.userTotal 7 = 0 ∧
    (step s (.claimBoosted 1 none)).map (fun r => r.2.boosted) = some 2500 ∧
    (step s (.claimBoosted 7 none)).isSome = false ∧ (step s (.claimBoosted 2 (some 1))).isSome = false := by
  decide

/-! ### the general forms: any list of payments

  `(takePayments s c pays).isSome` is the ESDT multi-transfer's own precondition — every payment is a non-zero
  amount of an existing position token and the sender owns them (payments of the same nonce are debited one
  after the other) — not an internal counter of the farm. -/

/-- **claim with any number of payments, every legitimate caller.**  `claimRewards(opt_orig_caller)` with the
    payments `pays` sent by `c` succeeds IF AND ONLY IF the contract is active, there is at least one payment,
    the transfer of the payments is valid, and either no original caller is passed or `c` is on the SC whitelist.
    (The additional payments are merged into the new token: `merge_attributes_from_payments` — `into_part`, the
    weighted-average index, the amounts — cannot fail.) -/
theorem claim_list_succeeds_iff_guards (kind : Kind) (same : Bool) (dsc pb : Nat) (produce : Bool)
    (users : List Nat) (e0 : Nat) (hnd : users.Nodup) (hd : dsc ≠ 0) (ops : List Op)
    (c : Nat) (opt : Option Nat) (pays : List (Nat × Nat)) :
    let s := run (init kind same dsc pb produce users e0) ops
    (step s (.claim c opt pays)).isSome = true ↔
      (s.active = true ∧ pays ≠ [] ∧ (takePayments s c pays).isSome = true ∧ (opt = none ∨ c ∈ s.scWl)) := by
  intro s
  constructor
  · intro h
    obtain ⟨r, hr⟩ := Option.isSome_iff_exists.mp h
    obtain ⟨orig, ho, hc⟩ := claimRewards_spec (known_some hr).2
    obtain ⟨h1, h2, h3⟩ := claimCore_list_guards hc
    refine ⟨h1, h2, h3, ?_⟩
    rcases origCaller_spec ho with ⟨e, _⟩ | ⟨_, hw⟩
    · exact Or.inl e
    · exact Or.inr hw
  · rintro ⟨hact, hne, h0, ho⟩
    obtain ⟨hA, hP, hK, hI, hX, hd', hWI, hWP, W, hPM⟩ :=
      reachable_all kind same dsc pb produce users e0 hnd hd ops
    have hu : c ∈ s.users := by
      cases hp : pays with
      | nil => exact absurd hp hne
      | cons p l =>
        obtain ⟨n, a⟩ := p
        rw [hp] at h0
        obtain ⟨s0, hs0⟩ := Option.isSome_iff_exists.mp h0
        obtain ⟨ha, _, hle⟩ := takePayments_cons hs0
        have hne' : s.hold c n ≠ 0 := by omega
        exact (hP.dom c n hne').1
    obtain ⟨o, ho'⟩ : ∃ o, origCaller s c opt = some o := by
      rcases ho with rfl | hw
      · exact ⟨c, rfl⟩
      · cases opt with
        | none => exact ⟨c, rfl⟩
        | some o => exact ⟨o, origCaller_some hw⟩
    show (if c ∈ s.users then _ else none).isSome = true
    rw [if_pos hu]
    exact claimRewards_list_always hA hP hK hI hX hd' hPM hWI hWP ho' hact hne h0

/-- **claim on behalf with any number of payments.**  `claimRewardsOnBehalf` with the payments `pays` sent by the
    agent `c` succeeds IF AND ONLY IF the contract is active, the transfer of the payments is valid, all payments
    record the same owner `u` (`get_claim_original_owner`), `c` is not on the hub's blacklist and `u` has
    whitelisted `c` in the hub. -/
theorem claim_on_behalf_list_succeeds_iff_guards (kind : Kind) (same : Bool) (dsc pb : Nat) (produce : Bool)
    (users : List Nat) (e0 : Nat) (hnd : users.Nodup) (hd : dsc ≠ 0) (ops : List Op)
    (c : Nat) (pays : List (Nat × Nat)) :
    let s := run (init kind same dsc pb produce users e0) ops
    (step s (.claimOB c pays)).isSome = true ↔
      (s.active = true ∧ (takePayments s c pays).isSome = true ∧
        ∃ u, claimOwner s pays = some u ∧ c ∉ s.hubBl ∧ (u, c) ∈ s.hubWl) := by
  intro s
  constructor
  · intro h
    obtain ⟨r, hr⟩ := Option.isSome_iff_exists.mp h
    obtain ⟨u, hu, hh, hc⟩ := claimRewardsOnBehalf_spec (known_some hr).2
    obtain ⟨h1, _, h3⟩ := claimCore_list_guards hc
    exact ⟨h1, h3, u, hu, (hubAllows_iff s u c).mp hh⟩
  · rintro ⟨hact, h0, u, hown, hbl, hwl⟩
    obtain ⟨hA, hP, hK, hI, hX, hd', hWI, hWP, W, hPM⟩ :=
      reachable_all kind same dsc pb produce users e0 hnd hd ops
    have hu : c ∈ s.users := by
      cases hp : pays with
      | nil => rw [hp] at hown; simp [claimOwner] at hown
      | cons p l =>
        obtain ⟨n, a⟩ := p
        rw [hp] at h0
        obtain ⟨s0, hs0⟩ := Option.isSome_iff_exists.mp h0
        obtain ⟨ha, _, hle⟩ := takePayments_cons hs0
        have hne' : s.hold c n ≠ 0 := by omega
        exact (hP.dom c n hne').1
    show (if c ∈ s.users then _ else none).isSome = true
    rw [if_pos hu]
    exact claimRewardsOnBehalf_list_always hA hP hK hI hX hd' hPM hWI hWP hown
      ((hubAllows_iff s u c).mpr ⟨hbl, hwl⟩) hact h0

/-- **enter with additional position tokens, every legitimate caller.**  `enterFarm(opt_orig_caller)` with `amt`
    farming tokens and the additional farm-token payments `extra` sent by the account `c` succeeds IF AND ONLY IF
    the contract is active, `amt ≠ 0`, the transfer of `extra` is valid, and either no original caller is passed
    or `c` is on the SC whitelist. -/
theorem enter_list_succeeds_iff_guards (kind : Kind) (same : Bool) (dsc pb : Nat) (produce : Bool)
    (users : List Nat) (e0 : Nat) (hnd : users.Nodup) (hd : dsc ≠ 0) (ops : List Op)
    (c : Nat) (opt : Option Nat) (amt : Nat) (extra : List (Nat × Nat)) :
    let s := run (init kind same dsc pb produce users e0) ops
    (step s (.enter c opt amt extra)).isSome = true ↔
      (c ∈ s.users ∧ s.active = true ∧ amt ≠ 0 ∧ (takePayments s c extra).isSome = true ∧
        (opt = none ∨ c ∈ s.scWl)) := by
  intro s
  constructor
  · intro h
    obtain ⟨r, hr⟩ := Option.isSome_iff_exists.mp h
    obtain ⟨orig, ho, hc⟩ := enterFarm_spec (known_some hr).2
    obtain ⟨h1, h2, h3⟩ := enterFarm_guards (known_some hr).2
    exact ⟨(known_some hr).1, h1, h2, enterCore_pays hc, h3⟩
  · rintro ⟨hu, hact, ha, h0, ho⟩
    obtain ⟨hA, _, hK, hI, hX, hd', hWI, hWP, W, hPM⟩ :=
      reachable_all kind same dsc pb produce users e0 hnd hd ops
    obtain ⟨o, ho'⟩ : ∃ o, origCaller s c opt = some o := by
      rcases ho with rfl | hw
      · exact ⟨c, rfl⟩
      · cases opt with
        | none => exact ⟨c, rfl⟩
        | some o => exact ⟨o, origCaller_some hw⟩
    show (if c ∈ s.users then _ else none).isSome = true
    rw [if_pos hu]
    exact enterFarm_always hA hK hI hX hd' hPM hWI hWP ho' hact ha h0

/-- **enter on behalf with additional position tokens.**  `enterFarmOnBehalf(user)` with `amt` farming tokens and
    the additional payments `extra` sent by the account `c` succeeds IF AND ONLY IF the contract is active,
    `amt ≠ 0`, the transfer of `extra` is valid, every additional token records `user` as its original owner,
    `c` is not on the hub's blacklist and `user` has whitelisted `c` in the hub. -/
theorem enter_on_behalf_list_succeeds_iff_guards (kind : Kind) (same : Bool) (dsc pb : Nat) (produce : Bool)
    (users : List Nat) (e0 : Nat) (hnd : users.Nodup) (hd : dsc ≠ 0) (ops : List Op)
    (c u amt : Nat) (extra : List (Nat × Nat)) :
    let s := run (init kind same dsc pb produce users e0) ops
    (step s (.enterOB c u amt extra)).isSome = true ↔
      (c ∈ s.users ∧ s.active = true ∧ amt ≠ 0 ∧ (takePayments s c extra).isSome = true ∧
        allOwnedBy s u extra = true ∧ c ∉ s.hubBl ∧ (u, c) ∈ s.hubWl) := by
  intro s
  constructor
  · intro h
    obtain ⟨r, hr⟩ := Option.isSome_iff_exists.mp h
    obtain ⟨hh, hown, hc⟩ := enterFarmOnBehalf_spec (known_some hr).2
    obtain ⟨h1, h2⟩ := enterCore_guards hc
    exact ⟨(known_some hr).1, h1, h2, enterCore_pays hc, hown, (hubAllows_iff s u c).mp hh⟩
  · rintro ⟨hu, hact, ha, h0, hown, hbl, hwl⟩
    obtain ⟨hA, _, hK, hI, hX, hd', hWI, hWP, W, hPM⟩ :=
      reachable_all kind same dsc pb produce users e0 hnd hd ops
    show (if c ∈ s.users then _ else none).isSome = true
    rw [if_pos hu]
    exact enterFarmOnBehalf_always hA hK hI hX hd' hPM hWI hWP
      ((hubAllows_iff s u c).mpr ⟨hbl, hwl⟩) hown hact ha h0

/-- non-vacuity of the general forms, same state: the whitelisted contract 7 claims for user 1 with two payments
    of its position 3 (base reward of the first payment, the second merged in: new token of 3000); the same
    with 2000 + 2000 > 3000 held is not a valid transfer and fails; the agent 2 claims on behalf with two
    payments recording owner 1; 7 enters for user 1 merging its position 3, agent 2 enters on behalf merging
    position 2 (owned by user 1) -/
example :
    let s := run (init .mint false 1000000000000 1000 true [1, 2, 7] 0) callersOps
    (takePayments s 7 [(3, 1000), (3, 2000)]).isSome = true ∧
    (step s (.claim 7 (some 1) [(3, 1000), (3, 2000)])).map (fun r => (r.2.nonce, r.2.amt, r.2.base, r.2.boosted))
      = some (4, 3000, 1875, 2500) ∧
    (takePayments s 7 [(3, 2000), (3, 2000)]).isSome = false ∧
    (step s (.claim 7 (some 1) [(3, 2000), (3, 2000)])).isSome = false ∧
    claimOwner s [(2, 400), (2, 600)] = some 1 ∧
    (step s (.claimOB 2 [(2, 400), (2, 600)])).map (fun r => (r.2.nonce, r.2.amt, r.2.base, r.2.boosted))
      = some (4, 1000, 1500, 2500) ∧
    (step s (.enter 7 (some 1) 500 [(3, 3000)])).map (fun r => (r.2.nonce, r.2.amt, r.2.boosted)) = some (4, 3500, 2500) ∧
    allOwnedBy s 1 [(2, 1000)] = true ∧
    (step s (.enterOB 2 1 500 [(2, 1000)])).map (fun r => (r.2.nonce, r.2.amt, r.2.boosted)) = some (4, 1500, 2500) := by
  decide

end Mx.C05Callers
