/-
  C20 (pair part) — quotes equal execution: `getAmountOut` / `getAmountIn` /
  `getTokensForGivenPosition` versus the two swap modes and `removeLiquidity`, in the same state.
  Views are pure functions of the state in the model (`view… : St → … → Option Nat`), so
  "quoting never changes state" holds by construction here; on the real code it is checked
  by the harness (clause `view_pure`).
-/
import MxModel.Lemmas.PairK

namespace Mx.C20
open Mx.Pair

/-- whatever a fixed-input swap delivers is exactly what `getAmountOut` promised -/
theorem amountOut_quote_eq_exec {s s' : St} {d : Dir} {a minOut q : Nat} {o : Out}
    (hq : viewAmountOut s d a = some q) (h : swapIn s d a minOut = some (s', o)) : o.v1 = q := by
  obtain ⟨_, _, _, _, _, _, rfl, _⟩ := swapIn_spec h
  simp only [viewAmountOut, Option.bind_eq_bind, Option.bind_eq_some_iff, req_eq_some,
    Option.pure_def, Option.some.injEq] at hq
  obtain ⟨_, _, _, _, _, _, _, _, rfl⟩ := hq
  rfl

/-- a fixed-input swap never succeeds where its quote refuses -/
theorem swapIn_implies_quote {s s' : St} {d : Dir} {a minOut : Nat} {o : Out}
    (h : swapIn s d a minOut = some (s', o)) : ∃ q, viewAmountOut s d a = some q := by
  obtain ⟨_, _, h1, h2, _, h4, rfl, h6, h7, h8, _⟩ := swapIn_spec h
  refine ⟨amountOut s.total a (s.rin d) (s.rout d), ?_⟩
  have hden : s.rin d * M + a * (M - s.total) ≠ 0 := by
    intro hden
    simp only [amountOut, hden, Nat.div_zero] at h8
    exact h8 rfl
  have hro : 0 < s.rout d := by omega
  simp only at h7
  simp only [viewAmountOut, Option.bind_eq_bind, Option.bind_eq_some_iff, req_eq_some,
    Option.pure_def, Option.some.injEq]
  exact ⟨(), h2, (), hro, (), hden, (), h7, trivial⟩

/-- the quote is also sufficient: if `getAmountOut` answers, the pair is active, the caller's
    minimum is met, fee routing succeeds and — the one guard output locking adds — the locking
    address is simple-lock while locking is on, the swap goes through (no hidden extra guard) -/
theorem quote_implies_swapIn {s : St} {d : Dir} {a minOut q : Nat}
    (hq : viewAmountOut s d a = some q) (hact : s.status = .active) (hmin : 0 < minOut)
    (hle : minOut ≤ q) (hq0 : q ≠ 0) (hoff : s.feeOn = false) (hbal : q ≤ s.balOut d)
    (hk : s.r1 * s.r2 ≤ (swapMid s d a 0 q).r1 * (swapMid s d a 0 q).r2)
    (hlock : s.lockOn = true → s.lockSc = .simpleLock) :
    ∃ s', swapIn s d a minOut = some (s', ⟨q, 0, 0, s.locksOut⟩) := by
  simp only [viewAmountOut, Option.bind_eq_bind, Option.bind_eq_some_iff, req_eq_some,
    Option.pure_def, Option.some.injEq] at hq
  obtain ⟨_, h1, _, h2, _, h3, _, h4, rfl⟩ := hq
  have hro : minOut < s.rout d := by omega
  have hk' : s.r1 * s.r2 ≤
      (s.touch.setR d (s.rin d + a) (s.rout d - amountOut s.total a (s.rin d) (s.rout d))).r1 *
      (s.touch.setR d (s.rin d + a) (s.rout d - amountOut s.total a (s.rin d) (s.rout d))).r2 := by
    cases d <;> simpa [swapMid, St.setR, St.setBal, St.touch] using hk
  have hb : amountOut s.total a (s.rin d) (s.rout d) ≤
      (s.touch.setR d (s.rin d + a) (s.rout d - amountOut s.total a (s.rin d) (s.rout d))).balOut d := by
    cases d <;> simpa [St.setR, St.touch, St.balOut] using hbal
  have hb2 : ∀ x y, ((s.touch.setR d (s.rin d + a) (s.rout d - amountOut s.total a (s.rin d) (s.rout d))).setBal d x y).balOut d = y := by
    intro x y; cases d <;> rfl
  have hm : ∀ x y u v, ((s.touch.setR d x y).setBal d u v).lockOn = s.lockOn ∧
      ((s.touch.setR d x y).setBal d u v).lockSc = s.lockSc ∧
      ((s.touch.setR d x y).setBal d u v).locksOut = s.locksOut := by
    intro x y u v; cases d <;> exact ⟨rfl, rfl, rfl⟩
  have hlk := fun x y u v => lockOut_ok ((s.touch.setR d x y).setBal d u v) d
    (amountOut s.total a (s.rin d) (s.rout d))
    (by rw [(hm x y u v).1, (hm x y u v).2.1]; exact hlock)
  simp only [(hm _ _ _ _).2.2] at hlk
  simp [swapIn, req, sub?, hmin, h1, hact, hro, hle, h4, hq0, hoff, sendFee_zero, St.debitOut, hk', hb,
    hb2, hlk, addSlkOut_balOut]

/-- whatever a fixed-output swap charges is exactly what `getAmountIn` promised -/
theorem amountIn_quote_eq_exec {s s' : St} {d : Dir} {maxIn out q : Nat} {o : Out}
    (hq : viewAmountIn s d out = some q) (h : swapOut s d maxIn out = some (s', o)) :
    o.v2 = q ∧ o.v1 = out := by
  obtain ⟨_, _, _, _, _, _, _, rfl, _⟩ := swapOut_spec h
  simp only [viewAmountIn, Option.bind_eq_bind, Option.bind_eq_some_iff, req_eq_some,
    Option.pure_def, Option.some.injEq] at hq
  obtain ⟨_, _, _, _, _, _, rfl⟩ := hq
  exact ⟨rfl, rfl⟩

/-- a fixed-output swap never succeeds where its quote refuses -/
theorem swapOut_implies_quote {s s' : St} {d : Dir} {maxIn out : Nat} {o : Out}
    (h : swapOut s d maxIn out = some (s', o)) : ∃ q, viewAmountIn s d out = some q := by
  obtain ⟨_, _, h1, _, _, h4, h5, _⟩ := swapOut_spec h
  refine ⟨amountIn s.total out (s.rin d) (s.rout d), ?_⟩
  simp [viewAmountIn, req, h1, h4, h5]

/-- removing liquidity pays exactly what `getTokensForGivenPosition` promised -/
theorem position_quote_eq_exec {s s' : St} {lp m1 m2 : Nat} {o : Out}
    (h : removeLiq s lp m1 m2 = some (s', o)) :
    viewTokensForPosition s lp = (o.v1, o.v2) := by
  obtain ⟨_, _, _, h4, h5, rfl, _⟩ := removeLiq_spec h
  have hS : s.S ≠ 0 := by
    have hM : MINLIQ = 1000 := rfl
    omega
  simp [viewTokensForPosition, hS]

/-- non-vacuity -/
example :
    let s0 := run (init 300 50 none 8) [.cfg (.setState .active), .addLiq 1000000 2000000 1 1]
    viewAmountOut s0 .ab 1000 = some 1992 ∧ (swapIn s0 .ab 1000 1).isSome ∧
    viewAmountIn s0 .ab 1992 = some 1000 ∧ viewTokensForPosition s0 1000 = (1000, 2000) := by
  decide

end Mx.C20
