/-
  KGov — the governance model (`Core/Governance.lean`) computes what the SOURCE of
  `energy-integration/governance-v2/src/{views.rs, proposal_storage.rs}` computes.

  `Gen/KGov.lean` is regenerated on every run by `bin/gen-kernels`.  The three predicates
  `quorum_reached`, `vote_reached`, `vote_down_with_veto` are translated on the fields of the
  stored `ProposalVotes` / `GovernanceProposal`; `get_proposal_status` takes their results (and
  `proposal_exists`) as Boolean inputs and returns the `GovernanceProposalStatus` variant index
  (`Status.tag`: None 0, Pending 1, Active 2, Defeated 3, DefeatedWithVeto 4, Succeeded 5) with
  payload 0.
-/
import MxModel.Gen.KGov
import MxModel.Lemmas.KernelTags
import MxModel.Lemmas.KernelTags2
import MxModel.Lemmas.KTactic
import MxModel.Lemmas.GovSpec

namespace Mx.KGov
open Mx Mx.Gen Mx.Gov

/-- source `ProposalVotes::get_total_votes` = model `totalVotes` -/
theorem get_total_votes_eq (p : Proposal) :
    KGov.get_total_votes p.abstain p.veto p.down p.up = some p.totalVotes := by
  k_defs [KGov.get_total_votes, Proposal.totalVotes]
  try k_solve

/-- source `vote_down_with_veto` decides the model's `vetoed`: veto votes strictly above a third
    (rounded down) of all votes; never aborts -/
theorem vote_down_with_veto_eq (p : Proposal) (id : Nat) :
    KGov.vote_down_with_veto p.abstain p.veto p.down id p.up = some (decide p.vetoed) := by
  k_defs [KGov.vote_down_with_veto, KGov.get_total_votes, Proposal.vetoed, Proposal.totalVotes]
  try k_solve

/-- source `vote_reached` decides the model's `voteReached`: not vetoed and up votes strictly above
    half (rounded down) of all votes; never aborts -/
theorem vote_reached_eq (p : Proposal) (id : Nat) :
    KGov.vote_reached p.abstain p.veto p.down id p.up = some (decide p.voteReached) := by
  k_defs [KGov.vote_reached, KGov.get_total_votes, Proposal.voteReached, Proposal.vetoed,
    Proposal.totalVotes]
  try k_solve

/-- source `quorum_reached` decides the model's `quorumReached`:
    `quorum · 10000 ≥ minimum_quorum · total_quorum`; never aborts -/
theorem quorum_reached_eq (p : Proposal) (id : Nat) :
    KGov.quorum_reached p.minQuorum p.totalQuorum p.quorum id = some (decide p.quorumReached) := by
  have hF : FULL = 10000 := rfl
  k_defs [KGov.quorum_reached, Proposal.quorumReached, hF]
  try k_solve

/-- source `get_proposal_status` of an existing proposal, fed with the source's own three
    predicates, returns the variant of the model's `statusAt` -/
theorem get_proposal_status_eq (p : Proposal) (b id : Nat) :
    KGov.get_proposal_status b true p.start p.delay p.period id (decide p.quorumReached)
        (decide p.vetoed) (decide p.voteReached) = some ((p.statusAt b).tag, 0) := by
  k_defs [KGov.get_proposal_status, Proposal.statusAt]
  k_solve

/-- a proposal that does not exist (invalid id, or cleared by `cancel`) has status `None`,
    whatever the other inputs -/
theorem get_proposal_status_missing (b st dl pd id : Nat) (q v r : Bool) :
    KGov.get_proposal_status b false st dl pd id q v r = some (Status.none.tag, 0) := by
  k_defs [KGov.get_proposal_status]
  try k_solve

/-- on a model state: for a stored, not cleared proposal the view `getProposalStatus` (source
    status function composed with the source predicates on the stored votes) is the model's
    `St.status` -/
theorem get_proposal_status_state (s : St) (id : Nat) (p : Proposal) (hg : s.get? id = some p)
    (hc : p.cleared = false) :
    ∃ q v r, KGov.quorum_reached p.minQuorum p.totalQuorum p.quorum id = some q ∧
      KGov.vote_down_with_veto p.abstain p.veto p.down id p.up = some v ∧
      KGov.vote_reached p.abstain p.veto p.down id p.up = some r ∧
      KGov.get_proposal_status s.block true p.start p.delay p.period id q v r =
        some ((s.status id).tag, 0) := by
  refine ⟨_, _, _, quorum_reached_eq p id, vote_down_with_veto_eq p id, vote_reached_eq p id, ?_⟩
  have hs : s.status id = p.statusAt s.block := by
    simp only [St.status, hg, hc, Bool.false_eq_true, if_false]
  rw [hs]
  exact get_proposal_status_eq p s.block id

/-- on a model state: a missing or cleared proposal reads as `None` in both -/
theorem get_proposal_status_state_missing (s : St) (id : Nat)
    (h : s.get? id = none ∨ ∃ p, s.get? id = some p ∧ p.cleared = true) (st dl pd : Nat)
    (q v r : Bool) :
    KGov.get_proposal_status s.block false st dl pd id q v r = some ((s.status id).tag, 0) := by
  have hs : s.status id = .none := by
    rcases h with h | ⟨p, hp, hc⟩
    · simp only [St.status, h]
    · simp only [St.status, hp, hc, if_true]
  rw [hs]
  exact get_proposal_status_missing _ _ _ _ _ _ _ _

/-! ### vote: voting power, tally update (lib.rs `vote`) -/

/-- source `smoothing_function` is the integer square root; `vote` applies it to the voter's energy
    (the model's `power := Nat.sqrt e`) -/
theorem vote_power_eq (e : Nat) : KGov.vote_power e = some (Nat.sqrt e) := by
  k_defs [KGov.vote_power, KGov.smoothing_function]
  try k_solve

/-- the four tally updates of `vote`: the chosen counter grows by the voting power, the quorum by
    the voter's energy — together they ARE the model's `Proposal.addVote`.
    Result orders (alphabetical): up `(quorum, up)`, down `(down, quorum)`, veto `(veto, quorum)`,
    abstain `(abstain, quorum)` -/
theorem vote_up_eq (p : Proposal) (power e : Nat) :
    KGov.vote_up p.quorum p.up e power =
      some ((p.addVote .up power e).quorum, (p.addVote .up power e).up) := by
  k_defs [KGov.vote_up, Proposal.addVote]
  try k_solve

theorem vote_down_eq (p : Proposal) (power e : Nat) :
    KGov.vote_down p.down p.quorum e power =
      some ((p.addVote .down power e).down, (p.addVote .down power e).quorum) := by
  k_defs [KGov.vote_down, Proposal.addVote]
  try k_solve

theorem vote_down_veto_eq (p : Proposal) (power e : Nat) :
    KGov.vote_down_veto p.veto p.quorum e power =
      some ((p.addVote .veto power e).veto, (p.addVote .veto power e).quorum) := by
  k_defs [KGov.vote_down_veto, Proposal.addVote]
  try k_solve

theorem vote_abstain_eq (p : Proposal) (power e : Nat) :
    KGov.vote_abstain p.abstain p.quorum e power =
      some ((p.addVote .abstain power e).abstain, (p.addVote .abstain power e).quorum) := by
  k_defs [KGov.vote_abstain, Proposal.addVote]
  try k_solve

/-- `addVote` touches only the chosen counter and the quorum -/
theorem addVote_frame (p : Proposal) (v : Vote) (power e : Nat) :
    (p.addVote v power e).quorum = p.quorum + e ∧
    (p.addVote v power e).up + (p.addVote v power e).down + (p.addVote v power e).veto +
      (p.addVote v power e).abstain = p.up + p.down + p.veto + p.abstain + power := by
  cases v <;> simp [Proposal.addVote] <;> omega

/-- a successful model `vote` reports exactly the source's voting power and counts the voter's whole
    energy towards the quorum -/
theorem vote_runs_source {s s' : St} {c id : Nat} {v : Vote} {o : Out}
    (h : vote s c id v = some (s', o)) :
    KGov.vote_power (s.energy c) = some o.v1 ∧ o.v2 = s.energy c := by
  obtain ⟨p, _, _, _, _, _, _, _, rfl, _⟩ := vote_spec h
  exact ⟨vote_power_eq _, rfl⟩

/-! ### withdrawDeposit after a veto: refund / burn split -/

/-- source: refund `⌊pct · fee / 10000⌋`, burn the rest (checked subtraction: aborts for a
    percentage above 100 % whose refund exceeds the fee).  Result (refund_amount, remaining_fee) -/
theorem withdraw_veto_split_eq (fee pct : Nat) :
    KGov.withdraw_veto_split fee pct =
      if fee < pct * fee / FULL then none else some (pct * fee / FULL, fee - pct * fee / FULL) := by
  have hF : FULL = 10000 := rfl
  k_defs [KGov.withdraw_veto_split, hF]
  k_solve

/-- refund + burn = the escrowed fee (nothing is lost or created by the split) -/
theorem withdraw_veto_split_sum (fee pct r b : Nat)
    (h : KGov.withdraw_veto_split fee pct = some (r, b)) : r + b = fee := by
  rw [withdraw_veto_split_eq] at h
  split at h
  · cases h
  · simp only [Option.some.injEq, Prod.mk.injEq] at h
    omega

/-- a successful model `withdraw` of a vetoed proposal pays and burns exactly what the source computes -/
theorem withdraw_vetoed_runs_source {s s' : St} {c id : Nat} {o : Out}
    (h : withdraw s c id = some (s', o)) (hv : s.status id = .vetoed) :
    ∃ p, s.get? id = some p ∧ KGov.withdraw_veto_split p.fee p.wpct = some (o.v1, o.v2) := by
  obtain ⟨p, _, hg, _, hc⟩ := withdraw_spec h
  refine ⟨p, hg, ?_⟩
  rcases hc with ⟨hst, _⟩ | ⟨_, hle, _, _, rfl, _⟩
  · rcases hst with hst | hst <;> rw [hv] at hst <;> cases hst
  · rw [withdraw_veto_split_eq, if_neg (by omega)]

/-! ### propose: the two guards on energy and fee -/

/-- `propose` demands at least the configured minimum energy -/
theorem propose_energy_check_eq (e minE : Nat) :
    KGov.propose_energy_check e minE = if minE ≤ e then some () else none := by
  k_defs [KGov.propose_energy_check]
  k_solve

/-- `propose` demands the fee token and EXACTLY the configured fee -/
theorem propose_fee_check_eq (feeTok minFee amount tok : Nat) :
    KGov.propose_fee_check feeTok minFee amount tok =
      if feeTok = tok ∧ minFee = amount then some () else none := by
  k_defs [KGov.propose_fee_check]
  k_solve

/-- a successful model `propose` passes both source guards -/
theorem propose_runs_source {s s' : St} {c fee : Nat} {o : Out} (h : propose s c fee = some (s', o))
    (tok : Nat) :
    KGov.propose_energy_check (s.energy c) s.minEnergy = some () ∧
    KGov.propose_fee_check tok s.minFee fee tok = some () := by
  obtain ⟨_, he, _, _, hf, _⟩ := propose_spec h
  rw [propose_energy_check_eq, propose_fee_check_eq, if_pos he, if_pos ⟨rfl, hf⟩]
  exact ⟨rfl, rfl⟩

/-! ### the range guards of the `change*` endpoints (configurable.rs) = the model's `cfg` -/

theorem try_change_min_fee_eq (s : St) (x : Nat) :
    KGov.try_change_min_fee_for_propose x = (cfg s (.minFee x)).map (·.minFee) := by
  have h1 : MIN_FEE = 2000000 * 1000000000000000000 := rfl
  have h2 : MAX_FEE = 200000000000 * 1000000000000000000 := rfl
  k_defs [KGov.try_change_min_fee_for_propose, cfg, h1, h2]
  k_solve

theorem try_change_quorum_eq (s : St) (x : Nat) :
    KGov.try_change_quorum_percentage x = (cfg s (.quorum x)).map (·.quorumPct) := by
  have h1 : MIN_QUORUM = 1000 := rfl
  have h2 : MAX_QUORUM = 6000 := rfl
  k_defs [KGov.try_change_quorum_percentage, cfg, h1, h2]
  k_solve

theorem try_change_voting_delay_eq (s : St) (x : Nat) :
    KGov.try_change_voting_delay_in_blocks x = (cfg s (.delay x)).map (·.delay) := by
  have h1 : MIN_VOTING_DELAY = 1 := rfl
  have h2 : MAX_VOTING_DELAY = 100800 := rfl
  k_defs [KGov.try_change_voting_delay_in_blocks, cfg, h1, h2]
  k_solve

theorem try_change_voting_period_eq (s : St) (x : Nat) :
    KGov.try_change_voting_period_in_blocks x = (cfg s (.period x)).map (·.period) := by
  have h1 : MIN_VOTING_PERIOD = 14400 := rfl
  have h2 : MAX_VOTING_PERIOD = 201600 := rfl
  k_defs [KGov.try_change_voting_period_in_blocks, cfg, h1, h2]
  k_solve

theorem try_change_withdraw_percentage_eq (s : St) (x : Nat) :
    KGov.try_change_withdraw_percentage_defeated x = (cfg s (.wpct x)).map (·.wpct) := by
  have h1 : FULL = 10000 := rfl
  k_defs [KGov.try_change_withdraw_percentage_defeated, cfg, h1]
  k_solve

/-- the strict thresholds: exactly a third of veto votes does not veto, exactly half of up votes
    does not pass -/
example : KGov.vote_down_with_veto 0 1 2 7 0 = some false := by decide
example : KGov.vote_down_with_veto 0 2 2 7 0 = some true := by decide
example : KGov.vote_reached 0 0 2 7 2 = some false := by decide
example : KGov.vote_reached 0 0 2 7 3 = some true := by decide
example : KGov.quorum_reached 5000 100 50 7 = some true := by decide
example : KGov.quorum_reached 5000 101 50 7 = some false := by decide
example : KGov.get_proposal_status 50 true 10 5 20 1 true false true = some (5, 0) := by decide
example : KGov.withdraw_veto_split 1000 2500 = some (250, 750) := by decide
example : KGov.withdraw_veto_split 1000 10010 = none := by decide
example : KGov.try_change_quorum_percentage 6000 = none := by decide
example : KGov.try_change_quorum_percentage 1000 = some 1000 := by decide

/-! ### the whole `match vote { … }` of `vote` (session 4: the translator reads `match`) -/

/-- the `match` on the vote type that ends `vote`, as ONE translated fragment: for the vote type
    with index `v.tag` (`UpVote, DownVote, DownVetoVote, AbstainVote`) the five tallies after the
    update are those of the model's `Proposal.addVote v` — the arm selection (which counter a vote
    type feeds) is part of the translated source.  Result order (alphabetical):
    `(abstain, down_veto, down, quorum, up)` -/
theorem vote_apply_eq (p : Proposal) (v : Vote) (power e : Nat) :
    KGov.vote_apply p.abstain p.veto p.down p.quorum p.up e v.tag power =
      some ((p.addVote v power e).abstain, (p.addVote v power e).veto, (p.addVote v power e).down,
            (p.addVote v power e).quorum, (p.addVote v power e).up) := by
  cases v <;> k_defs [KGov.vote_apply, Proposal.addVote, Vote.tag] <;> try k_solve

/-- a vote-type index outside the enum aborts (cannot be decoded on chain) -/
theorem vote_apply_bad_tag (a b c d e f g n : Nat) (h : 4 ≤ n) :
    KGov.vote_apply a b c d e f n g = none := by
  obtain ⟨k, rfl⟩ : ∃ k, n = k + 4 := ⟨n - 4, by omega⟩
  rfl

example : KGov.vote_apply 1 2 3 4 5 10 2 7 = some (1, 9, 3, 14, 5) := by decide
example : KGov.vote_apply 1 2 3 4 5 10 0 7 = some (1, 2, 3, 14, 12) := by decide

end Mx.KGov
