/-
  KGov — the governance model (`Core/Governance.lean`) computes what the SOURCE of
  `energy-integration/governance-v2/src/{views.rs, proposal_storage.rs}` computes.

  `Gen/KGov.lean` is regenerated on every run by `bin/gen-kernels`.  The three predicates
  `quorum_reached`, `vote_reached`, `vote_down_with_veto` are translated on the fields of the
  stored `ProposalVotes` / `GovernanceProposal`; `get_proposal_status` takes their results (and
  `proposal_exists`) as Boolean inputs and returns the `GovernanceProposalStatus` variant index
  (`Status.tag`: None 0, Pending 1, Active 2, Defeated 3, DefeatedWithVeto 4, Succeeded 5) with
  payload 0.
-/
import MxModel.Gen.KGov
import MxModel.Lemmas.KernelTags

namespace Mx.KGov
open Mx Mx.Gen Mx.Gov

/-- source `ProposalVotes::get_total_votes` = model `totalVotes` -/
theorem get_total_votes_eq (p : Proposal) :
    KGov.get_total_votes p.abstain p.veto p.down p.up = some p.totalVotes := rfl

/-- source `vote_down_with_veto` decides the model's `vetoed`: veto votes strictly above a third
    (rounded down) of all votes; never aborts -/
theorem vote_down_with_veto_eq (p : Proposal) (id : Nat) :
    KGov.vote_down_with_veto p.abstain p.veto p.down id p.up = some (decide p.vetoed) := by
  have h3 : ¬ (3 = 0) := by omega
  simp only [KGov.vote_down_with_veto, KGov.get_total_votes, div?, if_neg h3, gt_iff_lt,
    Option.bind_eq_bind, Option.bind_some, Option.pure_def, Option.some.injEq, decide_eq_decide]
  exact Iff.rfl

/-- source `vote_reached` decides the model's `voteReached`: not vetoed and up votes strictly above
    half (rounded down) of all votes; never aborts -/
theorem vote_reached_eq (p : Proposal) (id : Nat) :
    KGov.vote_reached p.abstain p.veto p.down id p.up = some (decide p.voteReached) := by
  have h3 : ¬ (3 = 0) := by omega
  have h2 : ¬ (2 = 0) := by omega
  simp only [KGov.vote_reached, KGov.get_total_votes, div?, if_neg h3, if_neg h2, gt_iff_lt,
    Option.bind_eq_bind, Option.bind_some, Option.pure_def]
  by_cases hv : p.vetoed
  · have hv' : (p.up + p.down + p.veto + p.abstain) / 3 < p.veto := hv
    have hn : ¬ p.voteReached := fun c => c.1 hv
    simp only [if_pos hv', hn, decide_false]
  · have hv' : ¬ (p.up + p.down + p.veto + p.abstain) / 3 < p.veto := hv
    simp only [if_neg hv', Option.some.injEq, decide_eq_decide]
    simp only [Proposal.voteReached, Proposal.totalVotes]
    exact ⟨fun h => ⟨hv, h⟩, fun h => h.2⟩

/-- source `quorum_reached` decides the model's `quorumReached`:
    `quorum · 10000 ≥ minimum_quorum · total_quorum`; never aborts -/
theorem quorum_reached_eq (p : Proposal) (id : Nat) :
    KGov.quorum_reached p.minQuorum p.totalQuorum p.quorum id = some (decide p.quorumReached) := by
  have hF : FULL = 10000 := rfl
  simp only [KGov.quorum_reached, Proposal.quorumReached, hF, ge_iff_le, Option.pure_def]

/-- source `get_proposal_status` of an existing proposal, fed with the source's own three
    predicates, returns the variant of the model's `statusAt` -/
theorem get_proposal_status_eq (p : Proposal) (b id : Nat) :
    KGov.get_proposal_status b true p.start p.delay p.period id (decide p.quorumReached)
        (decide p.vetoed) (decide p.voteReached) = some ((p.statusAt b).tag, 0) := by
  by_cases h1 : b < p.start + p.delay
  · have hs : p.statusAt b = .pending := by simp only [Proposal.statusAt, if_pos h1]
    rw [hs]
    simp only [KGov.get_proposal_status, not_true_eq_false, if_false, if_pos h1, Option.pure_def, Status.tag]
  · by_cases h2 : b < p.start + p.delay + p.period
    · have hs : p.statusAt b = .active := by simp only [Proposal.statusAt, if_neg h1, if_pos h2]
      have h2' : b ≥ p.start + p.delay ∧ b < p.start + p.delay + p.period := ⟨by omega, h2⟩
      rw [hs]
      simp only [KGov.get_proposal_status, not_true_eq_false, if_false, if_neg h1, if_pos h2', Option.pure_def,
        Status.tag]
    · have h2' : ¬ (b ≥ p.start + p.delay ∧ b < p.start + p.delay + p.period) := fun c => h2 c.2
      by_cases hq : p.quorumReached ∧ p.voteReached
      · have hs : p.statusAt b = .succeeded := by
          simp only [Proposal.statusAt, if_neg h1, if_neg h2, if_pos hq]
        have hq' : decide p.quorumReached = true ∧ decide p.voteReached = true := by
          simp only [decide_eq_true_eq]; exact hq
        rw [hs]
        simp only [KGov.get_proposal_status, not_true_eq_false, if_false, if_neg h1, if_neg h2', if_pos hq',
          Option.pure_def, Status.tag]
      · have hq' : ¬ (decide p.quorumReached = true ∧ decide p.voteReached = true) := by
          simp only [decide_eq_true_eq]; exact hq
        by_cases hv : p.vetoed
        · have hs : p.statusAt b = .vetoed := by
            simp only [Proposal.statusAt, if_neg h1, if_neg h2, if_neg hq, if_pos hv]
          have hv' : decide p.vetoed = true := by simp only [decide_eq_true_eq]; exact hv
          rw [hs]
          simp only [KGov.get_proposal_status, not_true_eq_false, if_false, if_neg h1, if_neg h2', if_neg hq',
            if_pos hv', Option.pure_def, Status.tag]
        · have hs : p.statusAt b = .defeated := by
            simp only [Proposal.statusAt, if_neg h1, if_neg h2, if_neg hq, if_neg hv]
          have hv' : ¬ decide p.vetoed = true := by simp only [decide_eq_true_eq]; exact hv
          rw [hs]
          simp only [KGov.get_proposal_status, not_true_eq_false, if_false, if_neg h1, if_neg h2', if_neg hq',
            if_neg hv', Option.pure_def, Status.tag]

/-- a proposal that does not exist (invalid id, or cleared by `cancel`) has status `None`,
    whatever the other inputs -/
theorem get_proposal_status_missing (b st dl pd id : Nat) (q v r : Bool) :
    KGov.get_proposal_status b false st dl pd id q v r = some (Status.none.tag, 0) := by
  have hf : ¬ (false = true) := by simp
  simp only [KGov.get_proposal_status, if_pos hf, Option.pure_def, Status.tag]

/-- on a model state: for a stored, not cleared proposal the view `getProposalStatus` (source
    status function composed with the source predicates on the stored votes) is the model's
    `St.status` -/
theorem get_proposal_status_state (s : St) (id : Nat) (p : Proposal) (hg : s.get? id = some p)
    (hc : p.cleared = false) :
    ∃ q v r, KGov.quorum_reached p.minQuorum p.totalQuorum p.quorum id = some q ∧
      KGov.vote_down_with_veto p.abstain p.veto p.down id p.up = some v ∧
      KGov.vote_reached p.abstain p.veto p.down id p.up = some r ∧
      KGov.get_proposal_status s.block true p.start p.delay p.period id q v r =
        some ((s.status id).tag, 0) := by
  refine ⟨_, _, _, quorum_reached_eq p id, vote_down_with_veto_eq p id, vote_reached_eq p id, ?_⟩
  have hs : s.status id = p.statusAt s.block := by
    simp only [St.status, hg, hc, Bool.false_eq_true, if_false]
  rw [hs]
  exact get_proposal_status_eq p s.block id

/-- on a model state: a missing or cleared proposal reads as `None` in both -/
theorem get_proposal_status_state_missing (s : St) (id : Nat)
    (h : s.get? id = none ∨ ∃ p, s.get? id = some p ∧ p.cleared = true) (st dl pd : Nat)
    (q v r : Bool) :
    KGov.get_proposal_status s.block false st dl pd id q v r = some ((s.status id).tag, 0) := by
  have hs : s.status id = .none := by
    rcases h with h | ⟨p, hp, hc⟩
    · simp only [St.status, h]
    · simp only [St.status, hp, hc, if_true]
  rw [hs]
  exact get_proposal_status_missing _ _ _ _ _ _ _ _

/-- the strict thresholds: exactly a third of veto votes does not veto, exactly half of up votes
    does not pass -/
example : KGov.vote_down_with_veto 0 1 2 7 0 = some false := by decide
example : KGov.vote_down_with_veto 0 2 2 7 0 = some true := by decide
example : KGov.vote_reached 0 0 2 7 2 = some false := by decide
example : KGov.vote_reached 0 0 2 7 3 = some true := by decide
example : KGov.quorum_reached 5000 100 50 7 = some true := by decide
example : KGov.quorum_reached 5000 101 50 7 = some false := by decide
example : KGov.get_proposal_status 50 true 10 5 20 1 true false true = some (5, 0) := by decide

end Mx.KGov
