/-
  C16 — Proxy DEX, original-caller ("on behalf") variants of the proxy endpoints.

  Statement (C16): "… Base asset the proxy mints for a pool or farm entry is matched on exit by
  burning the same amount of base asset or, for the part the pool or a penalty kept, of locked
  tokens (with the USER's energy reduced by exactly their contribution) …".

  `enterFarmProxy`, `exitFarmProxy` and `claimRewardsProxy` take an optional original caller that
  only contracts on the proxy's SC whitelist may supply (`get_orig_caller_from_opt`).  The user in
  the statement is that ORIGINAL caller: `exitFarmProxy` hands `&original_caller` to
  `burn_locked_tokens_and_update_energy`, while every output payment goes to the direct caller.
  `removeLiquidityProxy` has no such argument: there the user is the direct caller.

  Model: Core/ProxyDexWho.lean (`stepA`: whitelist gate + the unchanged bookkeeping `step` + the
  per-account ledger `eBy` of the energy the proxy took from each account's entry).  The harness
  reads the same per-account quantity off the real energy factory on every transaction
  (state line `ed=`), for users, the whitelisted manager contract and bystanders.
  Only property theorems live here; lemmas are in Lemmas/ProxyDexWho.lean.
-/
import MxModel.Lemmas.ProxyDexWho

namespace Mx.C16Who
open Mx.ProxyDex

/-- Only a caller on the proxy's SC whitelist can name an original caller: for EVERY operation,
    all arguments and all callee answers, the transaction of a non-whitelisted caller that
    supplies one fails (state unchanged). -/
theorem orig_caller_needs_whitelist (a : StA) (caller u : Nat) (op : Op)
    (h : a.wlist caller = false) : stepA a ⟨caller, some u, op⟩ = none := by
  apply stepA_eq_none_of_orig
  cases ho : origOf? a ⟨caller, some u, op⟩ with
  | none => rfl
  | some v =>
      rcases origOf?_eq_some.mp ho with ⟨h1, _⟩ | ⟨_, _, h2⟩
      · cases h1
      · rw [h] at h2; cases h2

/-- Only the three farm endpoints have the argument: an original caller on `addLiquidityProxy`,
    `removeLiquidityProxy`, a merge or an energy increase is rejected whoever sends it. -/
theorem orig_caller_only_on_farm_endpoints (a : StA) (caller u : Nat) (op : Op)
    (h : hasOrigArg op = false) : stepA a ⟨caller, some u, op⟩ = none := by
  apply stepA_eq_none_of_orig
  cases ho : origOf? a ⟨caller, some u, op⟩ with
  | none => rfl
  | some v =>
      rcases origOf?_eq_some.mp ho with ⟨h1, _⟩ | ⟨_, h2, _⟩
      · cases h1
      · rw [h] at h2; cases h2

/-- Every accepted transaction, whatever the operation: the outputs go to the DIRECT caller, the
    call is made for the original caller if one is named and for the direct caller otherwise, the
    proxy's whole energy deduction of this transaction is booked on that one account, nobody
    else's entry is touched, and the proxy's bookkeeping is that of the plain model. -/
theorem energy_booked_on_one_account {a a' : StA} {c : Call} {o : OutA}
    (h : stepA a c = some (a', o)) :
    o.to = c.caller ∧ o.eAcc = c.opt.getD c.caller ∧
    (∀ u, c.opt = some u → a.wlist c.caller = true ∧ hasOrigArg c.op = true) ∧
    a'.eBy o.eAcc = a.eBy o.eAcc + o.out.eDed ∧ (∀ i, i ≠ o.eAcc → a'.eBy i = a.eBy i) ∧
    a'.wlist = a.wlist ∧ step a.s c.op = some (a'.s, o.out) := by
  obtain ⟨u, s', o', hu, hs, rfl, rfl⟩ := stepA_eq_some.mp h
  have hacc : u = c.opt.getD c.caller ∧
      (∀ v, c.opt = some v → a.wlist c.caller = true ∧ hasOrigArg c.op = true) := by
    rcases origOf?_eq_some.mp hu with ⟨h1, h2⟩ | ⟨h1, h2, h3⟩
    · exact ⟨by rw [h1, h2]; rfl, fun v hv => by rw [h1] at hv; cases hv⟩
    · exact ⟨by rw [h1]; rfl, fun _ _ => ⟨h3, h2⟩⟩
  refine ⟨rfl, hacc.1, hacc.2, ?_, ?_, rfl, hs⟩
  · show (if u = u then a.eBy u + o'.eDed else a.eBy u) = _
    rw [if_pos rfl]
  · intro i hi
    show (if i = u then a.eBy i + o'.eDed else a.eBy i) = _
    rw [if_neg hi]

/-- **The early-exit penalty is charged to the ORIGINAL caller.**  `exitFarmProxy` of `x` units of
    a wrapped farm token entered with locked tokens, sent by `caller` in the name of `u`, the farm
    returning `farming ≤ x` farming tokens (`x − farming` = the penalty the farm kept), for all
    arguments and callee answers: the transaction is only accepted from a whitelisted caller;
    exactly `x − farming` locked tokens of the recorded nonce are burned; the energy entry of `u`
    drops by exactly `(x − farming) · (unlock − now)`; NOBODY else's entry moves — in particular
    not the direct caller's when `caller ≠ u`; the remaining locked tokens of the recorded nonce
    go to the direct caller. -/
theorem energy_deduction_on_original_caller {a a' : StA} {caller u farm f x farming : Nat}
    {rew : Option LkTok} {o : OutA} {q : WFarm}
    (h : stepA a ⟨caller, some u, .exitFarm farm f x farming rew⟩ = some (a', o))
    (hq : a.s.wf[f]? = some q) (hk : q.kind = .locked) :
    a.wlist caller = true ∧ farming ≤ x ∧ o.out.burned.2 = x - farming ∧
    a'.eBy u = a.eBy u + ((x - farming : Nat) : Int) * ((a.s.unl q.pn : Int) - (a.s.now : Int)) ∧
    (∀ i, i ≠ u → a'.eBy i = a.eBy i) ∧ (caller ≠ u → a'.eBy caller = a.eBy caller) ∧
    o.to = caller ∧ o.eAcc = u ∧
    (∃ p, part q.pa q.fa x = some p ∧ o.out.locked = (q.pn, p - (x - farming))) ∧
    a'.s.burnL = a.s.burnL + (x - farming) := by
  obtain ⟨hto, hacc, hwl, he, hoth, _, hs⟩ := energy_booked_on_one_account h
  obtain ⟨p, hp, hfx, _, hl, hb, _, hed, _, _, _, _, hbl, _, _⟩ :=
    exitFarm_locked_spec (show exitFarm a.s farm f x farming rew = _ from hs) hq hk
  have hu : o.eAcc = u := hacc
  rw [hu] at he hoth
  refine ⟨(hwl u rfl).1, hfx, hb, by rw [he, hed], hoth, fun hc => hoth caller hc, hto, hu,
    ⟨p, hp, hl⟩, hbl⟩

/-- The same for a position entered with wrapped LP tokens: with a penalty the wrapped LP part is
    shrunk to a new wrapped LP token for the direct caller, the locked tokens that no longer
    back it (`qO − qN`, recomputed pro rata) are burned and their contribution
    `(qO − qN) · (unlock − now)` is taken from the ORIGINAL caller's entry and from nobody else's;
    without a penalty nobody's entry moves. -/
theorem energy_deduction_on_original_caller_lp {a a' : StA} {caller u farm f x farming : Nat}
    {rew : Option LkTok} {o : OutA} {q : WFarm}
    (h : stepA a ⟨caller, some u, .exitFarm farm f x farming rew⟩ = some (a', o))
    (hq : a.s.wf[f]? = some q) (hk : q.kind = .wlp) :
    a.wlist caller = true ∧ o.to = caller ∧ o.eAcc = u ∧
    (∀ i, i ≠ u → a'.eBy i = a.eBy i) ∧ (caller ≠ u → a'.eBy caller = a.eBy caller) ∧
    ∃ p rw, part q.pa q.fa x = some p ∧ a.s.wl[q.pn]? = some rw ∧
      (x = farming → a'.eBy u = a.eBy u ∧ o.out.wOut = (q.pn, p)) ∧
      (x ≠ farming → ∃ qO qN, part rw.locked rw.total p = some qO ∧
          part rw.locked rw.total (p - (x - farming)) = some qN ∧ o.out.burned.2 = qO - qN ∧
          o.out.wOut = (a.s.wl.length, p - (x - farming)) ∧
          a'.eBy u = a.eBy u +
            ((qO - qN : Nat) : Int) * ((a.s.unl rw.k : Int) - (a.s.now : Int))) := by
  obtain ⟨hto, hacc, hwl, he, hoth, _, hs⟩ := energy_booked_on_one_account h
  obtain ⟨p, rw, hp, hrw, _, _, _, h0, h1⟩ :=
    exitFarm_wlp_spec (show exitFarm a.s farm f x farming rew = _ from hs) hq hk
  have hu : o.eAcc = u := hacc
  rw [hu] at he hoth
  refine ⟨(hwl u rfl).1, hto, hu, hoth, fun hc => hoth caller hc, p, rw, hp, hrw, ?_, ?_⟩
  · intro hx
    obtain ⟨hw, _, hz⟩ := h0 hx
    exact ⟨by rw [he, hz]; simp, hw⟩
  · intro hx
    obtain ⟨qO, qN, hqO, _, hqN, _, hw, hb, _, hed, _⟩ := h1 hx
    exact ⟨qO, qN, hqO, hqN, hb, hw, by rw [he, hed]⟩

/-- `removeLiquidityProxy` has no original-caller argument: the locked tokens burned for the
    pool's shortfall (`recorded part − base asset received`) are charged to the DIRECT caller,
    exactly `(p − rb) · (unlock − now)`, and to nobody else. -/
theorem removeLiq_deduction_on_direct_caller {a a' : StA} {caller w x rb ro : Nat}
    {opt : Option Nat} {o : OutA}
    (h : stepA a ⟨caller, opt, .removeLiq w x rb ro⟩ = some (a', o)) :
    opt = none ∧ o.to = caller ∧ o.eAcc = caller ∧ (∀ i, i ≠ caller → a'.eBy i = a.eBy i) ∧
    ∃ r p, a.s.wl[w]? = some r ∧ part r.locked r.total x = some p ∧ o.out.burned.2 = p - rb ∧
      a'.eBy caller = a.eBy caller +
        ((p - rb : Nat) : Int) * ((a.s.unl r.k : Int) - (a.s.now : Int)) := by
  obtain ⟨hto, hacc, hwl, he, hoth, _, hs⟩ := energy_booked_on_one_account h
  have hopt : opt = none := by
    cases opt with
    | none => rfl
    | some v => have := (hwl v rfl).2; cases this
  subst hopt
  have hu : o.eAcc = caller := hacc
  rw [hu] at he hoth
  obtain ⟨r, p, hr, hp, _, _, _, _, _, _, _, hb, _, hed, _⟩ :=
    removeLiq_spec (show removeLiq a.s w x rb ro = _ from hs)
  exact ⟨rfl, hto, hu, hoth, r, p, hr, hp, hb, by rw [he, hed]⟩

/-- Every state reachable with callers and original callers is a state of the plain bookkeeping
    model reached by the accepted operations: all history theorems of Props/C16, C16Run (stated
    over `run (init now) ops`) hold for every history of calls, on behalf or not. -/
theorem runA_is_run (a : StA) (cs : List Call) : ∃ ops, (runA a cs).s = run a.s ops := by
  induction cs generalizing a with
  | nil => exact ⟨[], rfl⟩
  | cons c cs ih =>
      cases hc : stepA a c with
      | none =>
          obtain ⟨ops, h⟩ := ih a
          refine ⟨ops, ?_⟩
          simp only [runA, List.foldl_cons, hc] at h ⊢
          exact h
      | some r =>
          obtain ⟨a', o⟩ := r
          obtain ⟨_, _, _, _, _, _, hs⟩ := energy_booked_on_one_account hc
          obtain ⟨ops, h⟩ := ih a'
          refine ⟨c.op :: ops, ?_⟩
          simp only [runA, run, List.foldl_cons, hc, hs] at h ⊢
          exact h

/-- the backing invariant of C16 after every history of calls (on behalf or not) -/
theorem backed_runA (now : Nat) (wl : Nat → Bool) (cs : List Call) :
    Backed (runA (initA now wl) cs).s := by
  obtain ⟨ops, h⟩ := runA_is_run (initA now wl) cs
  rw [h]
  exact run_backed ops (backed_init now)

/-- the whitelist is never changed by a call (only the owner's endpoints, not modelled, change it) -/
theorem wlist_runA (a : StA) (cs : List Call) : (runA a cs).wlist = a.wlist := by
  induction cs generalizing a with
  | nil => rfl
  | cons c cs ih =>
      cases hc : stepA a c with
      | none => simpa only [runA, List.foldl_cons, hc] using ih a
      | some r =>
          obtain ⟨a', o⟩ := r
          obtain ⟨_, _, _, _, _, hw, _⟩ := energy_booked_on_one_account hc
          have := ih a'
          simp only [runA, List.foldl_cons, hc] at this ⊢
          rw [this, hw]

/-- One accepted call whose energy account is among the accounts `0 … n-1`: the per-account
    ledger total and the proxy's cumulative deduction move by the same amount. -/
theorem ledger_step {a a' : StA} {c : Call} {o : OutA} {n : Nat}
    (h : stepA a c = some (a', o)) (hc : c.caller < n) (ho : ∀ u, c.opt = some u → u < n) :
    sumTo a'.eBy n = sumTo a.eBy n + o.out.eDed ∧ a'.s.eDed = a.s.eDed + o.out.eDed := by
  obtain ⟨u, s', o', hu, hs, rfl, rfl⟩ := stepA_eq_some.mp h
  have hun : u < n := by
    rcases origOf?_eq_some.mp hu with ⟨_, h2⟩ | ⟨h1, _, _⟩
    · rw [h2]; exact hc
    · exact ho u h1
  exact ⟨sumTo_update a.eBy u o'.eDed hun, step_eDed hs⟩

/-- **Conservation of the energy ledger over every history.**  For any history of calls (on
    behalf or not, accepted or rejected) whose callers and original callers are among the
    accounts `0 … n-1`: the sum over these accounts of the energy the proxy took from each entry
    (`sumTo eBy n = Σ_{i<n} eBy i`) grows by exactly the proxy's cumulative deduction `eDed`, which
    is `amount·(unlock − now)` summed over all locked tokens it burned (`energy_delta_exact*`).
    Every unit of energy the proxy removes is charged to exactly one account — the energy account
    of the call — and nothing is charged without a burn. -/
theorem energy_ledger_conservation (a : StA) (cs : List Call) (n : Nat)
    (hb : ∀ c ∈ cs, c.caller < n ∧ ∀ u, c.opt = some u → u < n) :
    sumTo (runA a cs).eBy n - sumTo a.eBy n = (runA a cs).s.eDed - a.s.eDed := by
  induction cs generalizing a with
  | nil => simp [runA]
  | cons c cs ih =>
      have hcs : ∀ c' ∈ cs, c'.caller < n ∧ ∀ u, c'.opt = some u → u < n :=
        fun c' hc' => hb c' (List.mem_cons_of_mem _ hc')
      obtain ⟨hc, ho⟩ := hb c List.mem_cons_self
      cases hst : stepA a c with
      | none =>
          have := ih a hcs
          simp only [runA, List.foldl_cons, hst] at this ⊢
          exact this
      | some r =>
          obtain ⟨a', o⟩ := r
          obtain ⟨h1, h2⟩ := ledger_step hst hc ho
          have := ih a' hcs
          simp only [runA, List.foldl_cons, hst] at this ⊢
          omega

/-- from a freshly deployed proxy: the ledger total IS the cumulative deduction -/
theorem energy_ledger_total (now : Nat) (wl : Nat → Bool) (cs : List Call) (n : Nat)
    (hb : ∀ c ∈ cs, c.caller < n ∧ ∀ u, c.opt = some u → u < n) :
    sumTo (runA (initA now wl) cs).eBy n = (runA (initA now wl) cs).s.eDed := by
  have h := energy_ledger_conservation (initA now wl) cs n hb
  have z : sumTo (initA now wl).eBy n = 0 := by
    have : ∀ m, sumTo (fun _ => (0 : Int)) m = 0 := by
      intro m; induction m with
      | zero => rfl
      | succ m ih => simp only [sumTo, ih]; rfl
    exact this n
  have z2 : (initA now wl).s.eDed = 0 := rfl
  omega

/-- non-vacuity: user 1 enters with locked tokens (nonce 1, unlock 370), hands the position to
    the whitelisted manager 4, which exits 300 units in his name at epoch 10 with a penalty of 3;
    a non-whitelisted user 2 trying the same is rejected; the manager then removes liquidity it
    holds itself after the price moved (shortfall 50).  User 1 is charged 3·360, the manager
    50·360, user 2 and bystander 3 nothing. -/
example :
    let a0 := runA (initA 10 (fun i => i == 4))
      [⟨1, none, .lock ⟨1, 0, 370⟩⟩,
       ⟨1, none, .addLiq 1 1000 500 [] 499 1000 500 none⟩,
       ⟨1, none, .enterL 0 1 600 [] (1, 600) none none []⟩]
    let a1 := runA a0
      [⟨2, some 1, .exitFarm 0 1 300 297 none⟩,
       ⟨4, some 1, .exitFarm 0 1 300 297 none⟩,
       ⟨4, none, .removeLiq 1 100 150 60⟩]
    a0.s.wf[1]? = some ⟨0, 1, 600, .locked, 1, 600, 600, 600, 600⟩ ∧
    stepA a0 ⟨2, some 1, .exitFarm 0 1 300 297 none⟩ = none ∧
    (stepA a0 ⟨4, some 1, .exitFarm 0 1 300 297 none⟩).isSome = true ∧
    a1.eBy 1 = 3 * 360 ∧ a1.eBy 4 = 50 * 360 ∧ a1.eBy 2 = 0 ∧ a1.eBy 3 = 0 ∧
    a1.s.eDed = (3 + 50) * 360 ∧ a1.s.burnL = 53 ∧ sumTo a1.eBy 5 = a1.s.eDed := by
  decide

end Mx.C16Who
