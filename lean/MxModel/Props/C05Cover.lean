/-
  C05 (farm, farm-with-locked-rewards) — the two clauses Props/C05.lean leaves open:

    "… and it [the reward reserve] always covers all currently claimable base rewards plus all
     not-yet-claimed boosted-reward pools.  … every position's principal is withdrawable and no
     legitimate enter/claim/exit/merge fails because an internal counter would go negative."

  * `reserve_covers`, `reserve_decomposition`: PROVED for every reachable state of both kinds.
  * `no_underflow`: PROVED for every reserve-side counter (the checked `reward_reserve − reward` of
    claim / compound / exit / claimBoostedRewards / enter / merge, the reward-token balance of a
    minting farm, and — in Props/C05.lean — the supply and the owner totals).
    `exit_succeeds` / `claim_succeeds`: in every reachable state a holder's `exitFarm` / `claimRewards`
    can only fail INSIDE the weekly-rewards module (boosted claim, energy clearing) — every other
    guard and checked subtraction of the endpoints is discharged from the invariants.
    IN FULL (`no_underflow_full`): proved in Props/C05Budget.lean for EVERY history
    (`no_underflow_full_holds`; the factor-validation hypothesis `GoodOps` of `no_underflow_full_good_holds`
    is discharged since the repair of F7: a `setFactors` with `cE + cF = 0` is a failed call).  Finding F6 — the
    per-week subtraction `remainingBoostedRewardsToDistribute(week) −= reward` underflowing after a late
    first `setBoostedYieldsFactors` (corpus/farm/f6_late_config_underflow.ops) — is repaired:
    `claim_boosted_yields_rewards` advances the claim progress also when no config exists;
    `f6_history_repaired` shows the same history now succeeds (and it replays clean on the real contracts).

  The hypothesis under which the weekly subtraction is safe is `WeekBudget` (Lemmas/FarmWeekSafe.lean):
  `weekly_sub_safe_under_budget`, `week_budget_init_mono`; its energy half holds in every reachable
  state (`week_budget_energy_half`), its position half `Σ f ≤ F` is what the F6 counter-example broke
  (restored by the repair; see Props/C05Budget.lean).

  Hypotheses of the run-level theorems: `users.Nodup` (distinct accounts — `PosInv`) and `dsc ≠ 0`
  (the division safety constant; with `dsc = 0` every base reward is `x / 0 = 0`).
  Week sums range over the weeks `0 … W` with `W` the current week; later weeks hold nothing
  (`pools_after_current_week_empty`), so any later bound gives the same sum.

  Model: Core/Farm.lean.  Lemmas: Lemmas/FarmCover.lean, FarmWeekSafe.lean, FarmLive.lean, FarmEnergy.lean (on top of
  FarmAcct / FarmPos / FarmPot / FarmPool / FarmBoost and the Weekly* lemma files).
-/
import MxModel.Lemmas.FarmCover
import MxModel.Lemmas.FarmWeekSafe
import MxModel.Lemmas.FarmLive
import MxModel.Lemmas.FarmEnergy

namespace Mx.C05Cover
open Mx.Farm

/-- **reserve_covers.**  In every reachable state of a farm of either kind the reported reward
    reserve covers: Σ over outstanding position nonces of the base reward claimable right now
    `⌊outstanding(n)·(rps − entryRps(n))/dsc⌋`, plus Σ over the weeks up to the current one of the
    boosted pools (`accumulatedRewardsForWeek + remainingBoostedRewardsToDistribute`), plus the
    undistributed boosted rewards.  (The current week `W` always exists.) -/
theorem reserve_covers (kind : Kind) (same : Bool) (dsc pb : Nat) (produce : Bool) (users : List Nat)
    (e0 : Nat) (hnd : users.Nodup) (hd : dsc ≠ 0) (ops : List Op) :
    let s := run (init kind same dsc pb produce users e0) ops
    (∃ W, s.week = some W) ∧
    ∀ W, s.week = some W →
      ((nonceList s).map fun n => baseReward s.dsc s.rps (heldBy s n) (rpsOf s n)).sum +
        ((List.range (W + 1)).map fun w => s.b.accum w + s.b.remaining w).sum + s.undist ≤ s.reserve := by
  intro s
  obtain ⟨hA, _, hK, hI, hdsc⟩ := reachable_invs kind same dsc pb produce users e0 hnd ops
  refine ⟨week_of_time hI.time, fun W hW => ?_⟩
  exact (reserve_covers_state hA hK hI (by rw [hdsc]; exact hd) hW).1

/-- **reserve_decomposition** (exact).  The reserve IS the unspent base budget plus the boosted pools
    plus the undistributed rewards: nothing else is in it, nothing is missing.
    `baseBudget` = Σ over settlements of the base share `perBlock·Δblocks − boosted cut`. -/
theorem reserve_decomposition (kind : Kind) (same : Bool) (dsc pb : Nat) (produce : Bool)
    (users : List Nat) (e0 : Nat) (hnd : users.Nodup) (hd : dsc ≠ 0) (ops : List Op) :
    let s := run (init kind same dsc pb produce users e0) ops
    ∀ W, s.week = some W →
      s.paidBase ≤ s.baseBudget ∧
      s.reserve = (s.baseBudget - s.paidBase) +
        ((List.range (W + 1)).map fun w => s.b.accum w + s.b.remaining w).sum + s.undist := by
  intro s W hW
  obtain ⟨hA, _, hK, hI, hdsc⟩ := reachable_invs kind same dsc pb produce users e0 hnd ops
  obtain ⟨_, h2, h3⟩ := reserve_covers_state hA hK hI (by rw [hdsc]; exact hd) hW
  exact ⟨h3, h2⟩

/-- the same without any side condition (`dsc` may be 0, no subtraction):
    `reserve + paidBase = baseBudget + Σ pools + undistributed` -/
theorem reserve_decomposition_add (kind : Kind) (same : Bool) (dsc pb : Nat) (produce : Bool)
    (users : List Nat) (e0 : Nat) (ops : List Op) :
    let s := run (init kind same dsc pb produce users e0) ops
    ∀ W, s.week = some W →
      s.reserve + s.paidBase = s.baseBudget +
        ((List.range (W + 1)).map fun w => s.b.accum w + s.b.remaining w).sum + s.undist := by
  intro s W hW
  exact reserve_decomp (run_acct ops (init_acct kind same dsc pb produce users e0))
    (reachable_poolInv kind same dsc pb produce users e0 ops) W hW

/-- weeks after the current one hold nothing, so the week sums above may run to any later bound -/
theorem pools_after_current_week_empty (kind : Kind) (same : Bool) (dsc pb : Nat) (produce : Bool)
    (users : List Nat) (e0 : Nat) (ops : List Op) :
    let s := run (init kind same dsc pb produce users e0) ops
    ∀ W w, s.week = some W → W < w → s.b.accum w = 0 ∧ s.b.remaining w = 0 := by
  intro s W w hW hw
  have h : s.b.accum w + s.b.remaining w = 0 :=
    pool_future_zero (reachable_poolInv kind same dsc pb produce users e0 ops) hW hw
  omega

/-! ### no_underflow: the reserve-side counters -/

/-- **no_underflow (claim / compound / exit).**  In every reachable state, along the code path of
    `claimRewards` / `compoundRewards` / `exitFarm` (payments taken → `s0`; `generate` on the fresh
    cache → `(s1, c1)`; the first payment `(n, a)` with attributes `att`, split by `into_part`; the
    caller's boosted claim → `boosted`): the checked subtraction
    `reward_reserve − (base + boosted)` cannot underflow.  Whoever holds the position, whoever `orig`
    is, whatever else is merged in (`l`). -/
theorem no_underflow_reserve_claim_exit (kind : Kind) (same : Bool) (dsc pb : Nat) (produce : Bool)
    (users : List Nat) (e0 : Nat) (hnd : users.Nodup) (hd : dsc ≠ 0) (ops : List Op)
    {s0 s1 s2 : St} {c1 : Cache} {caller orig n a boosted : Nat} {l : List (Nat × Nat)} {att part : Attr} :
    let s := run (init kind same dsc pb produce users e0) ops
    takePayments s caller ((n, a) :: l) = some s0 →
    s0.attrs n = some att →
    generate s0 (Cache.read s0) = some (s1, c1) →
    att.intoPart a = some part →
    claimBoostedYields s1 orig = some (s2, boosted) →
    baseReward s1.dsc c1.rps a part.rps + boosted ≤ c1.reserve := by
  intro s h0 hat h1 hp h2
  obtain ⟨hA, hP, hK, hI, hdsc⟩ := reachable_invs kind same dsc pb produce users e0 hnd ops
  rw [takePayments_attrs h0] at hat
  rw [(intoPart_rps hp).1]
  exact reward_le_reserve hA hP hK hI (by rw [hdsc]; exact hd) h0 h1 hat h2

/-- … and in a reward-minting farm the reward tokens are there: after the settlement the contract's
    reward balance equals the cached reserve, so paying `base + boosted ≤ reserve` cannot fail either -/
theorem no_underflow_balance (same : Bool) (dsc pb : Nat) (produce : Bool)
    (users : List Nat) (e0 : Nat) (ops : List Op)
    {s0 s1 : St} {c1 : Cache} {caller : Nat} {l : List (Nat × Nat)} :
    let s := run (init .mint same dsc pb produce users e0) ops
    takePayments s caller l = some s0 →
    generate s0 (Cache.read s0) = some (s1, c1) →
    s1.balReward = c1.reserve := by
  intro s h0 h1
  have hA := run_acct ops (init_acct .mint same dsc pb produce users e0)
  have hk : s.kind = .mint := run_kind ops _
  have hb : s.balReward = s.reserve := hA.bal hk
  obtain ⟨e1, hc1⟩ := generate_av h1
  have e0' := takePayments_av h0
  have k0 : s0.kind = .mint := (takePayments_kind h0).trans hk
  have hr : c1.reserve = s0.reserve + minted s0 := by rw [hc1]; rfl
  simp only [av, AV.mk.injEq, k0, if_true] at e1 e0'
  omega

/-- **no_underflow (claimBoostedRewards).**  `reward_reserve − boosted` on the live cache cannot underflow. -/
theorem no_underflow_reserve_claimBoosted (kind : Kind) (same : Bool) (dsc pb : Nat) (produce : Bool)
    (users : List Nat) (e0 : Nat) (hnd : users.Nodup) (hd : dsc ≠ 0) (ops : List Op)
    {s1 s2 : St} {c1 : Cache} {u boosted : Nat} :
    let s := run (init kind same dsc pb produce users e0) ops
    generate s (Cache.read s) = some (s1, c1) →
    claimBoostedYields s1 u = some (s2, boosted) →
    boosted ≤ c1.reserve := by
  intro s h1 h2
  obtain ⟨hA, hP, hK, hI, hdsc⟩ := reachable_invs kind same dsc pb produce users e0 hnd ops
  exact boosted_le_reserve hA hP hK hI (by rw [hdsc]; exact hd) h1 h2

/-- **no_underflow (enter / merge).**  `claim_only_boosted_payment` subtracts the boosted reward from
    the stored reserve directly (no cache alive) after the payments were taken (and, in `enterFarm`,
    the farming tokens received, `amt`; `amt = 0` is the `mergeFarmTokens` case): cannot underflow. -/
theorem no_underflow_reserve_enter_merge (kind : Kind) (same : Bool) (dsc pb : Nat) (produce : Bool)
    (users : List Nat) (e0 : Nat) (hnd : users.Nodup) (hd : dsc ≠ 0) (ops : List Op)
    {s0 s2 : St} {caller u amt boosted : Nat} {l : List (Nat × Nat)} :
    let s := run (init kind same dsc pb produce users e0) ops
    takePayments s caller l = some s0 →
    claimBoostedYields (addFarming s0 amt) u = some (s2, boosted) →
    boosted ≤ (addFarming s0 amt).reserve := by
  intro s h0 h2
  obtain ⟨hA, _, hK, hI, hdsc⟩ := reachable_invs kind same dsc pb produce users e0 hnd ops
  obtain ⟨h', rfl⟩ := takePayments_spec l h0
  have hI' : PoolInv (addFarming { s with hold := h' } amt) := hI.of_view rfl
  exact boosted_le_of_cov hI' (cov_of_gen hI' hA.res hA.split) (hK.paidBase_le (by rw [hdsc]; exact hd)) h2

/-! ### no_underflow: exit and claim can only fail inside the weekly-rewards module -/

/-- **principal is withdrawable unless the weekly-rewards module aborts.**  In every reachable state of
    an active farm, whoever holds `a > 0` of position `n`: the settlement (`generate`) succeeds, and
    `exitFarm` with that payment succeeds as soon as the two calls into the weekly-rewards-splitting
    module succeed — the caller's boosted claim on the settled state and `clear_user_energy_if_needed`
    on the state with the owner's total decreased.  Every other guard and every other checked
    subtraction of the endpoint (reserve − reward, supply − amount, epoch − entering epoch, amount −
    penalty, farming balance − amount, reward balance − reward / the lock period of `lockVirtual`)
    is discharged by the invariants. -/
theorem exit_succeeds (kind : Kind) (same : Bool) (dsc pb : Nat) (produce : Bool)
    (users : List Nat) (e0 : Nat) (hnd : users.Nodup) (hd : dsc ≠ 0) (ops : List Op) (u n a : Nat) :
    let s := run (init kind same dsc pb produce users e0) ops
    s.active = true → a ≠ 0 → a ≤ s.hold u n →
    ∃ att s1 c1, s.attrs n = some att ∧ generate s (Cache.read s) = some (s1, c1) ∧
      ∀ s2 boosted, claimBoostedYields s1 u = some (s2, boosted) →
        (clearUserEnergyIfNeeded (decreaseOwner s2 att.owner a) u).isSome = true →
        (step s (.exit u none n a)).isSome = true := by
  intro s hact ha hle
  obtain ⟨hA, hP, hK, hI, hdsc⟩ := reachable_invs kind same dsc pb produce users e0 hnd ops
  have hX := reachable_xinv kind same dsc pb produce users e0 ops
  have hne : s.hold u n ≠ 0 := by omega
  obtain ⟨hu, _, hsome⟩ := hP.dom u n hne
  obtain ⟨att, hat⟩ := Option.isSome_iff_exists.mp hsome
  obtain ⟨s1, c1, hg⟩ := generate_ok (s := s) (Cache.read s) hI.time hI.pct
  refine ⟨att, s1, c1, hat, hg, fun s2 boosted hb hc => ?_⟩
  have := exitFarm_ok hA hP hK hI hX (by rw [hdsc]; exact hd) hact ha hle hat hg hb hc
  show (if u ∈ s.users then _ else none).isSome = true
  rw [if_pos hu]
  exact this

/-- the same for `claimRewards` of one payment by its holder: it can only fail inside the boosted
    claim (`claim_multi` of the weekly-rewards module, including the per-week pool subtraction) -/
theorem claim_succeeds (kind : Kind) (same : Bool) (dsc pb : Nat) (produce : Bool)
    (users : List Nat) (e0 : Nat) (hnd : users.Nodup) (hd : dsc ≠ 0) (ops : List Op) (u n a : Nat) :
    let s := run (init kind same dsc pb produce users e0) ops
    s.active = true → a ≠ 0 → a ≤ s.hold u n →
    ∃ s1 c1, generate s (Cache.read s) = some (s1, c1) ∧
      ∀ s2 boosted, claimBoostedYields s1 u = some (s2, boosted) →
        (step s (.claim u none [(n, a)])).isSome = true := by
  intro s hact ha hle
  obtain ⟨hA, hP, hK, hI, hdsc⟩ := reachable_invs kind same dsc pb produce users e0 hnd ops
  have hX := reachable_xinv kind same dsc pb produce users e0 ops
  have hne : s.hold u n ≠ 0 := by omega
  obtain ⟨hu, _, hsome⟩ := hP.dom u n hne
  obtain ⟨att, hat⟩ := Option.isSome_iff_exists.mp hsome
  obtain ⟨s1, c1, hg⟩ := generate_ok (s := s) (Cache.read s) hI.time hI.pct
  refine ⟨s1, c1, hg, fun s2 boosted hb => ?_⟩
  have := claimRewards_ok hA hP hK hI hX (by rw [hdsc]; exact hd) hact ha hle hat hg hb
  show (if u ∈ s.users then _ else none).isSome = true
  rw [if_pos hu]
  exact this

/-- non-vacuity of `exit_succeeds` / `claim_succeeds`: in the corpus history f1 (week 2, boosted pool
    pending) both weekly-module calls succeed for user 1, and so do the exit and the claim -/
example :
    let s := run (init .mint false 1000000000000 1000 true [1, 2] 0)
      [.setFactors OWNER ⟨10, 3, 2, 1, 1⟩, .setPct OWNER 2500, .setEnergy 1 1000000 0 1000,
       .enter 1 none 100000000 [], .advance 10 6, .claim 1 none [(1, 100000000)], .advance 20 7]
    s.active = true ∧ s.hold 1 2 = 100000000 ∧
    ((generate s (Cache.read s)).bind fun r1 => (claimBoostedYields r1.1 1).map fun r2 =>
      (r2.2, (clearUserEnergyIfNeeded (decreaseOwner r2.1 1 100000000) 1).isSome)) = some (2500, true) ∧
    (step s (.exit 1 none 2 100000000)).isSome = true ∧
    (step s (.claim 1 none [(2, 100000000)])).isSome = true := by
  decide

/-! ### no_underflow in full: the weekly pool subtraction (finding F6, repaired) -/

/-- the full clause: in every reachable state of an active farm, whoever holds (part of) a position
    can exit with it — no internal counter stands in the way.
    STATUS: PROVED for ALL histories — `C05Budget.no_underflow_full_holds`.  History of the clause: before the
    repair of F6 it was false (`¬ no_underflow_full` was a theorem here, by `decide` on `cxOps`); after it,
    it was proved under `GoodOps` (every `setBoostedYieldsFactors` installs `cE + cF ≠ 0`) and refuted without
    that hypothesis (finding F7: the endpoint accepted `cE = cF = 0`, `get_user_rewards_for_week` divided by
    zero).  With F7 repaired (/repo e29f08e; model: `Farm.setFactors` rejects such factors) a bad
    `setFactors` is a failed transaction, every history equals its `GoodOps` part (`run_filter_good`) and the
    hypothesis is discharged. -/
def no_underflow_full : Prop :=
  ∀ (kind : Kind) (same : Bool) (dsc pb : Nat) (produce : Bool) (users : List Nat) (e0 : Nat)
    (ops : List Op), users.Nodup → dsc ≠ 0 →
    let s := run (init kind same dsc pb produce users e0) ops
    ∀ u n a, u ∈ s.users → s.active = true → a ≠ 0 → a ≤ s.hold u n → (exitFarm s u none n a).isSome

/-- The history of finding F6 (corpus/farm/f6_late_config_underflow.ops, ops 1–10).  Boosted
    percentage 25 % but NO boosted-yields factors yet.  User 1 (with energy) farms 1 token through
    week 1 (10 blocks settled: week 1's pool = 2500, `farmSupplyForWeek 1 = 1`).  In week 2 user 2
    enters 1000 and sends the position to user 1, who claims with it: `userTotalFarmPosition(1)`
    becomes 1001.  Then the owner sets the FIRST factors; `BoostedYieldsConfig::new` fills all five
    slots, so week 1 becomes claimable under them.
    Before the repair the boosted claim without a config returned early and user 1's claim progress
    stayed at week 1: week 1 was then evaluated with position 1001 against the recorded supply 1,
    `remaining − reward` underflowed and every operation of user 1 failed.  The repaired code
    (`update_energy_and_progress` in the `None` branch) moves the progress to week 2 in op 9,
    BEFORE the total grows. -/
def cxOps : List Op :=
  [.setPct OWNER 2500, .setEnergy 1 1000000 0 1000, .enter 1 none 1 [], .advance 10 6,
   .claim 1 none [(1, 1)], .advance 10 7, .enter 2 none 1000 [], .transfer 2 1 3 1000,
   .claim 1 none [(3, 1000)], .setFactors OWNER ⟨10, 3, 2, 1, 1⟩]

def cxState : St := run (init .mint false 1000000000000 1000 true [1, 2] 0) cxOps

/-- **the F6 history now succeeds.**  Same reachable state as in the finding (user 1 holds position 4
    = 1000 tokens in an active farm, total position 1001, week 1's pool 2500 with recorded supply 1,
    current week 2, factors just set for the first time) — but user 1's claim progress is at week 2
    (moved by the claim of op 9, when no config existed), so week 1 is not evaluated with the grown
    position: the boosted claim succeeds and pays 0, and EVERY operation of user 1 that used to fail
    succeeds: claim, exit (principal withdrawable), claimBoostedRewards, enter, merge.  (On the real
    repaired contracts: the corpus history replays without `no_legit_failure`.) -/
theorem f6_history_repaired :
    let s := cxState
    s.hold 1 4 = 1000 ∧ s.active = true ∧ s.reserve = 2500 ∧ s.b.accum 1 = 2500 ∧
    s.userTotal 1 = 1001 ∧ s.b.farmSupplyWeek 1 = 1 ∧ s.week = some 2 ∧
    (s.w.progress 1).map (·.week) = some 2 ∧
    (claimBoostedYields s 1).map (·.2) = some 0 ∧
    (step s (.claim 1 none [(4, 1000)])).isSome = true ∧
    (step s (.exit 1 none 4 1000)).isSome = true ∧
    (step s (.claimBoosted 1 none)).isSome = true ∧
    (step s (.enter 1 none 5 [])).isSome = true ∧
    (step s (.merge 1 none [(4, 1000), (2, 1)])).isSome = true ∧
    (step s (.enter 2 none 5 [])).isSome = true := by
  decide

/-- the instance of `no_underflow_full` that the finding refuted now holds: in the F6 state every
    holder of every position can exit with all of it -/
theorem no_underflow_full_on_f6 :
    let s := cxState
    (exitFarm s 1 none 4 1000).isSome = true ∧ (exitFarm s 1 none 2 1).isSome = true := by
  decide

/-- the pre-repair arithmetic, kept for the record: week 1 evaluated with position 1001 against the
    recorded supply 1 would give `min ⌊10·2500·1001/1⌋ ⌊(⌊2500·3·e/E⌋ + ⌊2500·2·1001/1⌋)/5⌋ = 1 002 500 > 2500` -/
theorem f6_unrepaired_reward_exceeds_pool :
    boostedAmount ⟨10, 3, 2, 1, 1⟩ 2500 1001 1 1000000 1000000 = 1002500 := by
  decide

/-! ### the hypothesis under which the weekly subtraction IS safe -/

/-- **exactly when one week's reward computation aborts** (`get_user_rewards_for_week`; `mem` = the
    config updated to the current week, `f` = the user's current total farm position, `e`/`E` = the
    user's / the total energy of the week): the week is live and either its factors are out of the
    ring's reach, or the user passes the minima and the frozen list is malformed / `cE + cF = 0` with
    a non-empty pool / — the only arithmetic cause — the computed reward exceeds `remaining`. -/
theorem weekly_sub_fails_iff (mem : BCfg) (f : Nat) (g : Weekly.St) (c : BSt) (week e E : Nat) :
    boostedRewards mem f g c week e E = none ↔
      (E ≠ 0 ∧ c.farmSupplyWeek week ≠ 0 ∧
        (mem.factorsForWeek week = none ∨
         ∃ fa, mem.factorsForWeek week = some fa ∧ fa.minE ≤ e ∧ fa.minF ≤ f ∧
           let r := Weekly.collectAndGet (collectBoosted mem) g c week
           ((∃ p q l, r.2.2 = p :: q :: l) ∨
            ∃ tok R, r.2.2 = [(tok, R)] ∧ R ≠ 0 ∧
              (fa.cE + fa.cF = 0 ∨
               (boostedAmount fa R f (c.farmSupplyWeek week) e E ≠ 0 ∧
                r.2.1.remaining week < boostedAmount fa R f (c.farmSupplyWeek week) e E))))) :=
  boostedRewards_none_iff mem f g c week e E

/-- a user whose total farm position is within the week's recorded supply (`f ≤ F`) and whose energy
    is within the week's total (`e ≤ E`) is never paid more than the week's whole pool `R` — so the
    FIRST payment out of a freshly frozen week (`remaining = R`) cannot underflow.
    (`f ≤ F` is what failed in finding F6: `1001 > 1`; it holds for every claimer in every reachable
    state of the repaired farm, Props/C05Budget.lean `claimer_position_le_week_supply`.) -/
theorem single_reward_le_pool (fa : Factors) (R f F e E : Nat) (hc : fa.cE + fa.cF ≠ 0)
    (hf : f ≤ F) (he : e ≤ E) : boostedAmount fa R f F e E ≤ R :=
  boostedAmount_le fa R f F e E hc hf he

/-- **the precise hypothesis (`WeekBudget`) and its sufficiency.**  For a claimable week with
    factors `fa`, frozen pool `R`, recorded supply `F ≠ 0`, total energy `E ≠ 0`, `paid` already paid
    out of it (`remaining + paid = R`): if what was paid plus the un-floored shares
    `R·(cE·e_v/E + cF·f_v/F)/(cE+cF)` of ALL users `v` who can still claim the week (`sumE = Σ e_v`,
    `sumF = Σ f_v`, energies decayed to the week, CURRENT total farm positions) fits into `R`
    (`WeekBudget`, stated cross-multiplied), then the claim of any one of them (`e ≤ sumE`,
    `f ≤ sumF`) does not underflow `remaining`, and the budget holds again afterwards with that
    user removed (so it is inductive along the claims of the week). -/
theorem weekly_sub_safe_under_budget {fa : Factors} {R F E paid sumE sumF e f remaining : Nat}
    (h : WeekBudget fa R F E paid sumE sumF) (he : e ≤ sumE) (hf : f ≤ sumF)
    (hc : fa.cE + fa.cF ≠ 0) (hE : E ≠ 0) (hF : F ≠ 0) (hrem : remaining + paid = R) :
    boostedAmount fa R f F e E ≤ remaining ∧
    WeekBudget fa R F E (paid + boostedAmount fa R f F e E) (sumE - e) (sumF - f) :=
  ⟨h.sub_ok he hf hc hE hF hrem, h.pay he hf⟩

/-- the budget holds when the week is frozen (nothing paid) as soon as `Σ e_v ≤ E` (the weekly
    module's energy bound, Lemmas/WeeklyHist.lean `EB`) and `Σ f_v ≤ F` (the claimers' current total
    positions are within the supply recorded for that week), and it survives claimers dropping out or
    shrinking.  `Σ f_v ≤ F` relies on every increase of `userTotalFarmPosition(v)` being preceded
    by a boosted claim that moves `v`'s progress past the week — which `claim_boosted_yields_rewards`
    skipped while no boosted config existed (finding F6) and now always does. -/
theorem week_budget_init_mono (fa : Factors) (R F E sumE sumF sumE' sumF' : Nat)
    (hE : sumE ≤ E) (hF : sumF ≤ F) (hE' : sumE' ≤ sumE) (hF' : sumF' ≤ sumF) :
    WeekBudget fa R F E 0 sumE sumF ∧ WeekBudget fa R F E 0 sumE' sumF' :=
  ⟨WeekBudget.init fa R F E sumE sumF hE hF, (WeekBudget.init fa R F E sumE sumF hE hF).mono hE' hF'⟩

/-- **the energy half of the budget holds in every reachable farm state**, for every week `w`
    (running, completed or long gone): either no total energy is recorded for `w` (then nothing is
    paid for it), or the recorded energies, decayed to `w`, of all users whose claim progress can
    still reach `w` sum to at most `totalEnergyForWeek(w)` — `Σ e_v ≤ E`.  (The weekly module's
    invariants `GInv` / `EB` transported through the farm's operations, Lemmas/FarmEnergy.lean.)
    So the ONLY missing piece of `WeekBudget` is the position half `Σ f_v ≤ F`. -/
theorem week_budget_energy_half (kind : Kind) (same : Bool) (dsc pb : Nat) (produce : Bool)
    (users : List Nat) (e0 : Nat) (ops : List Op) (w : Nat) :
    let s := run (init kind same dsc pb produce users e0) ops
    s.w.totalEnergy w = 0 ∨
      (s.w.users.map fun u => Weekly.eForP s.w.progress u w).sum ≤ s.w.totalEnergy w :=
  (reachable_winv kind same dsc pb produce users e0 ops).2 w

/-- with the pre-repair progress (user 1 still a claimer of week 1) the budget of week 1 would be
    violated by user 1 alone (position 1001 against a recorded supply of 1) -/
example : ¬ WeekBudget ⟨10, 3, 2, 1, 1⟩ 2500 1 1000000 0 1000000 1001 := by
  unfold WeekBudget; decide

/-- non-vacuity of the covering theorems: the corpus history f1 before the boosted claim — base
    budget spent (claimable 0), week 1's pool 2500 still in the reserve, and the hypotheses of
    `no_underflow_reserve_claimBoosted` are met with `boosted = 2500 = reserve` -/
example :
    let s := run (init .mint false 1000000000000 1000 true [1, 2] 0)
      [.setFactors OWNER ⟨10, 3, 2, 1, 1⟩, .setPct OWNER 2500, .setEnergy 1 1000000 0 1000,
       .enter 1 none 100000000 [], .advance 10 6, .claim 1 none [(1, 100000000)], .advance 10 7]
    s.week = some 2 ∧ s.reserve = 2500 ∧ s.b.accum 1 + s.b.remaining 1 = 2500 ∧ s.undist = 0 ∧
    s.baseBudget = 7500 ∧ s.paidBase = 7500 ∧
    ((generate s (Cache.read s)).bind fun r => (claimBoostedYields r.1 1).map (·.2)) = some 2500 := by
  decide

end Mx.C05Cover
