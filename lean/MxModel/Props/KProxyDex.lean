/-
  KProxyDex — the proxy-dex model (`Core/ProxyDex.lean`: `part`, the split of `removeLiq`) computes
  what the SOURCE of `locked-asset/proxy_dex/src/{wrapped_lp_attributes.rs, wrapped_farm_attributes.rs,
  proxy_pair.rs}` and `common/traits/fixed-supply-token` computes.

  `Gen/KProxyDex.lean` is regenerated on every run by `bin/gen-kernels` (group `ProxyDex`):

    * `lp_*`    `WrappedLpTokenAttributes`: total supply = `lp_token_amount`; `into_part(x)` keeps `x` LP
                tokens and `rule_of_three_non_zero_result(x, locked_tokens.amount)` locked tokens
    * `farm_*`  `WrappedFarmTokenAttributes`: total supply = `farm_token.amount`; `into_part(x)` keeps `x`
                farm tokens and `rule_of_three_non_zero_result(x, proxy_farming_token.amount)`
    * `remove_unlocked_amount`, `remove_extra_locked`   the two differences of `removeLiquidityProxy`
                (base asset received vs. locked tokens of the position)

  Property C16 (locked tokens stay locked, every wrapped token is fully backed) rests on the parts.
-/
import MxModel.Gen.KProxyDex
import MxModel.Core.ProxyDex
import MxModel.Lemmas.KTactic

namespace Mx.KProxyDex
open Mx Mx.Gen Mx.ProxyDex

/-- `rule_of_three_non_zero_result` of a wrapped LP token IS the model's `part full total x` -/
theorem lp_rule_of_three_non_zero_result_eq (x full total : Nat) :
    KProxyDex.lp_rule_of_three_non_zero_result x full total = part full total x := by
  k_defs [KProxyDex.lp_rule_of_three_non_zero_result, KProxyDex.lp_rule_of_three,
    KProxyDex.lp_total_supply, part]
  k_solve

/-- `WrappedLpTokenAttributes::into_part(x)`: `x` LP tokens and the model's part of the locked tokens.
    Result (lp_token_amount, locked_tokens.amount) -/
theorem lp_into_part_amounts_eq (locked total x : Nat) :
    KProxyDex.lp_into_part_amounts locked total x = (part locked total x).map fun q => (x, q) := by
  k_defs [KProxyDex.lp_into_part_amounts, lp_rule_of_three_non_zero_result_eq]
  cases part locked total x <;> k_solve

/-- `rule_of_three_non_zero_result` of a wrapped farm token IS the model's `part` -/
theorem farm_rule_of_three_non_zero_result_eq (x full total : Nat) :
    KProxyDex.farm_rule_of_three_non_zero_result x full total = part full total x := by
  k_defs [KProxyDex.farm_rule_of_three_non_zero_result, KProxyDex.farm_rule_of_three,
    KProxyDex.farm_total_supply, part]
  k_solve

/-- `WrappedFarmTokenAttributes::into_part(x)`: the proxy-farming-token amount of the part -/
theorem farm_into_part_amounts_eq (farmTotal farming x : Nat) :
    KProxyDex.farm_into_part_amounts farmTotal farming x = part farming farmTotal x := by
  k_defs [KProxyDex.farm_into_part_amounts, farm_rule_of_three_non_zero_result_eq]
  try (cases part farming farmTotal x <;> k_solve)

/-- … and its farm-token amount is the payment amount -/
theorem farm_into_part_farm_amount_eq (x : Nat) :
    KProxyDex.farm_into_part_farm_amount x = some x := by
  k_defs [KProxyDex.farm_into_part_farm_amount]
  try k_solve

/-- a part never exceeds the whole (for a payment within the supply): no wrapped token can release
    more locked tokens than it carries -/
theorem part_le (full total x q : Nat) (hx : x ≤ total) (h : part full total x = some q) :
    q ≤ full ∧ q ≠ 0 := by
  have hdiv : full * x / total ≤ full := by
    by_cases ht : total = 0
    · subst ht; simp
    · apply Nat.div_le_of_le_mul
      rw [Nat.mul_comm total full]
      exact Nat.mul_le_mul_left _ hx
  have h' : (if (if x = total then full else full * x / total) = 0 then none
      else some (if x = total then full else full * x / total)) = some q := h
  by_cases hxt : x = total
  · simp only [if_pos hxt] at h'
    by_cases hf : full = 0
    · rw [if_pos hf] at h'; cases h'
    · rw [if_neg hf, Option.some.injEq] at h'
      subst h'
      exact ⟨Nat.le_refl _, hf⟩
  · simp only [if_neg hxt] at h'
    by_cases hf : full * x / total = 0
    · rw [if_pos hf] at h'; cases h'
    · rw [if_neg hf, Option.some.injEq] at h'
      subst h'
      exact ⟨hdiv, hf⟩

/-- `removeLiquidityProxy`, more base asset received than locked tokens in the position: the
    surplus `received − locked` is paid as UNLOCKED base asset (the model's `base := rb − p`) -/
theorem remove_unlocked_amount_eq (rb p : Nat) :
    KProxyDex.remove_unlocked_amount rb p = if rb < p then none else some (rb - p) := by
  k_defs [KProxyDex.remove_unlocked_amount]
  k_solve

/-- … otherwise the shortfall `locked − received` of locked tokens is burned (the model's `extra`) -/
theorem remove_extra_locked_eq (rb p : Nat) :
    KProxyDex.remove_extra_locked rb p = if p < rb then none else some (p - rb) := by
  k_defs [KProxyDex.remove_extra_locked]
  k_solve

/-- in either branch: locked tokens sent + locked tokens burned = the position's locked tokens, and
    unlocked base asset paid + locked tokens sent = the base asset the pair returned -/
theorem remove_split_conserves (rb p : Nat) :
    (p < rb → ∃ u, KProxyDex.remove_unlocked_amount rb p = some u ∧ u + p = rb) ∧
    (rb ≤ p → ∃ e, KProxyDex.remove_extra_locked rb p = some e ∧ rb + e = p) := by
  constructor
  · intro h
    exact ⟨rb - p, by rw [remove_unlocked_amount_eq, if_neg (by omega)], by omega⟩
  · intro h
    exact ⟨p - rb, by rw [remove_extra_locked_eq, if_neg (by omega)], by omega⟩

example : KProxyDex.lp_into_part_amounts 50 100 30 = some (30, 15) := by decide
example : KProxyDex.lp_into_part_amounts 50 100 1 = none := by decide
example : KProxyDex.lp_into_part_amounts 50 100 100 = some (100, 50) := by decide
example : KProxyDex.farm_into_part_amounts 100 50 30 = some 15 := by decide

end Mx.KProxyDex
