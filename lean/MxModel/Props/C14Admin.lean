/-
  C14 (administration endpoints) — `issueLpToken`, `setLocalRoles`, `upgradePair`,
  `setTemporaryOwnerPeriod`, `clearPairTemporaryOwnerStorage` of the router.

  Statement: only registered pairs can be the target of `issueLpToken` / `setLocalRoles` /
  `upgradePair`; an LP token is issued by the owner, or by anybody once pair creation is public,
  but — while the temporary-owner entry written by `createPair` is live (creation block + period >
  current block) — ONLY by the account that created the pair, the router owner included; a
  paused router refuses the three endpoints for everybody; the temporary-owner period and the
  temporary-owner map are changed by the owner alone, paused router or not; and none of the five
  endpoints touches the registry, a pair contract, or anybody's balances.

  Model: Core/Router.lean.  The three endpoints that end in an asynchronous call are modelled up to
  that call (guards + the removal of an expired temporary-owner entry); see the header there.
  "Reachable" means `run (init …) ops` for an arbitrary history `ops` over ALL router operations.
  Only property theorems live here; helper lemmas are in Lemmas/RouterAdmin.lean.
-/
import MxModel.Props.C14

namespace Mx.C14Admin
open Mx.Router

/-! ### only registered pairs -/

/-- `issueLpToken(a)` and `setLocalRoles(a)` succeed only if `check_is_pair_sc(a)` accepts `a`,
    for every state, caller and address -/
theorem issue_roles_check_pair {s s' : St} {c a : Addr} {o : Out} :
    (step s (.issueLp c a) = some (s', o) → checkIsPairSc s.pairMap s.pairs a = some ()) ∧
    (step s (.setLocalRoles c a) = some (s', o) → checkIsPairSc s.pairMap s.pairs a = some ()) :=
  ⟨fun h => (issueLp_spec h).2.2.1, fun h => (setLocalRoles_spec (c := c) h).2.1⟩

/-- on every reachable state, a successful `issueLpToken(a)` / `setLocalRoles(a)` names an address
    that is in the registry (a removed pair, a foreign pair contract, an account that is no pair
    are all refused) -/
theorem issue_roles_only_registered (owner self : Addr) (template : Bool) (foreign : List PairRec)
    (funds : Addr → Nat → Nat) (ops : List Op) (c a : Addr) (r : St × Out)
    (h : step (run (init owner self template foreign funds) ops) (.issueLp c a) = some r ∨
         step (run (init owner self template foreign funds) ops) (.setLocalRoles c a) = some r) :
    a ∈ (run (init owner self template foreign funds) ops).pairMap.map Prod.snd := by
  obtain ⟨s', o⟩ := r
  have hi := run_inv ops (inv_init owner self template foreign funds)
  rcases h with h | h
  · exact (checkIsPairSc_iff_mem hi a).mp (issueLp_spec h).2.2.1
  · exact (checkIsPairSc_iff_mem hi a).mp (setLocalRoles_spec (c := c) h).2.1

/-- `upgradePair(t1, t2)` succeeds only for two distinct valid token ids that have a registry
    entry (in either order); the contract upgraded is that entry's address -/
theorem upgrade_only_registered {s s' : St} {c : Addr} {t1 t2 : Tok} {o : Out}
    (h : step s (.upgradePair c t1 t2) = some (s', o)) :
    t1 ≠ t2 ∧ validTok t1 ∧ validTok t2 ∧ getPair s.pairMap t1 t2 ≠ 0 ∧
    getPair s.pairMap t1 t2 ∈ s.pairMap.map Prod.snd := by
  obtain ⟨_, _, h3, h4, h5, h6, _⟩ := upgradePair_spec h
  exact ⟨h3, h4, h5, h6, getPair_ne_zero_mem h6⟩

/-! ### who may issue an LP token -/

/-- the caller rule of `issueLpToken`: a successful call was made by the owner or while pair
    creation is public; AND, if the pair still has a live temporary-owner entry (creation block +
    period > current block), by the creator recorded in it — nobody else, not even the owner;
    AND the pair has no LP token yet -/
theorem issue_caller_rule {s s' : St} {c a : Addr} {o : Out}
    (h : step s (.issueLp c a) = some (s', o)) :
    (c = s.owner ∨ s.creationEnabled = true) ∧
    (∀ t created, tmpLookup s.tmpOwners a = some (t, created) →
        s.block < created + s.tmpPeriod → c = t) ∧
    a ∈ s.noLp := by
  obtain ⟨_, h2, _, h4, h5, _⟩ := issueLp_spec h
  refine ⟨h2, ?_, h5⟩
  intro t created hl hlive
  rw [getTmpOwner_live hl hlive] at h4
  rcases h4 with h4 | h4
  · cases h4
  · exact (Option.some.inj h4).symm

/-- what a successful `issueLpToken(a)` writes before its asynchronous call: an EXPIRED
    temporary-owner entry of `a` is removed, a live one (or none) leaves the map as it is;
    nothing else in the router's state changes -/
theorem issue_effect {s s' : St} {c a : Addr} {o : Out}
    (h : step s (.issueLp c a) = some (s', o)) :
    s' = { s with tmpOwners := s'.tmpOwners } ∧
    (∀ t created, tmpLookup s.tmpOwners a = some (t, created) →
        created + s.tmpPeriod ≤ s.block → s'.tmpOwners = tmpErase s.tmpOwners a) ∧
    (∀ t created, tmpLookup s.tmpOwners a = some (t, created) →
        s.block < created + s.tmpPeriod → s'.tmpOwners = s.tmpOwners) ∧
    (tmpLookup s.tmpOwners a = none → s'.tmpOwners = s.tmpOwners) := by
  obtain ⟨_, _, _, _, _, _, rfl⟩ := issueLp_spec h
  refine ⟨rfl, ?_, ?_, ?_⟩
  · intro t created hl he
    show (getTmpOwner _ _ _ _).1 = _
    rw [getTmpOwner_expired hl he]
  · intro t created hl hlive
    show (getTmpOwner _ _ _ _).1 = _
    rw [getTmpOwner_live hl hlive]
  · intro hl
    show (getTmpOwner _ _ _ _).1 = _
    rw [getTmpOwner_none hl]

/-- `setLocalRoles(a)` has no caller rule at all — but the pair's LP token must exist -/
theorem roles_need_token {s s' : St} {c a : Addr} {o : Out}
    (h : step s (.setLocalRoles c a) = some (s', o)) : a ∉ s.noLp ∧ s' = s :=
  ⟨(setLocalRoles_spec (c := c) h).2.2.1, (setLocalRoles_spec (c := c) h).2.2.2.2⟩

/-! ### the paused router; owner-only endpoints -/

/-- while the router is paused `issueLpToken`, `setLocalRoles` and `upgradePair` fail for every
    caller and every argument -/
theorem paused_router_blocks_admin (s : St) (hp : s.active = false) :
    (∀ c a, step s (.issueLp c a) = none) ∧ (∀ c a, step s (.setLocalRoles c a) = none) ∧
    (∀ c t1 t2, step s (.upgradePair c t1 t2) = none) := by
  have key : s.active = true → False := fun h => by rw [hp] at h; cases h
  refine ⟨fun c a => ?_, fun c a => ?_, fun c t1 t2 => ?_⟩
  · cases hs : step s (.issueLp c a) with
    | none => rfl
    | some r => exact (key (issueLp_spec (s' := r.1) (o := r.2) hs).1).elim
  · cases hs : step s (.setLocalRoles c a) with
    | none => rfl
    | some r => exact (key (setLocalRoles_spec (c := c) (s' := r.1) (o := r.2) hs).1).elim
  · cases hs : step s (.upgradePair c t1 t2) with
    | none => rfl
    | some r => exact (key (upgradePair_spec (s' := r.1) (o := r.2) hs).2.1).elim

/-- `setTemporaryOwnerPeriod`, `clearPairTemporaryOwnerStorage` and `upgradePair` succeed only
    for the router's owner -/
theorem tmp_admin_owner_only {s s' : St} {c : Addr} {o : Out} :
    (∀ n, step s (.setTmpPeriod c n) = some (s', o) → c = s.owner) ∧
    (step s (.clearTmp c) = some (s', o) → c = s.owner) ∧
    (∀ t1 t2, step s (.upgradePair c t1 t2) = some (s', o) → c = s.owner) :=
  ⟨fun _ h => (setTmpPeriod_spec h).1, fun h => (clearTmp_spec h).1,
   fun _ _ h => (upgradePair_spec h).1⟩

/-- … and the two temporary-owner endpoints are NOT state-gated: for the owner they succeed in
    every state, paused router included; `clearPairTemporaryOwnerStorage` returns the number of
    entries it dropped -/
theorem tmp_admin_not_state_gated (s : St) (n : Nat) :
    step s (.setTmpPeriod s.owner n) = some ({ s with tmpPeriod := n }, {}) ∧
    step s (.clearTmp s.owner) =
      some ({ s with tmpOwners := [] }, { v1 := s.tmpOwners.length }) := by
  constructor <;> simp [step, setTmpPeriod, clearTmp, req]

/-- over ALL router operations: the temporary-owner period is changed by nothing but a
    `setTemporaryOwnerPeriod` call of the owner -/
theorem tmp_period_owner_only {s s' : St} {op : Op} {o : Out} (h : step s op = some (s', o))
    (hne : s'.tmpPeriod ≠ s.tmpPeriod) : ∃ n, op = .setTmpPeriod s.owner n := by
  cases op with
  | setCreation c b =>
    obtain ⟨_, rfl⟩ := setCreation_frame h
    exact absurd rfl hne
  | createPair c t1 t2 ad f =>
    obtain ⟨fp, _, _, _, _, _, _, _, _, _, _, _, rfl⟩ := createPair_spec h
    exact absurd rfl hne
  | removePair c t1 t2 =>
    obtain ⟨_, _, _, _, _, _, _, rfl⟩ := removePair_spec h
    exact absurd rfl hne
  | setTemplate c =>
    obtain ⟨_, rfl⟩ := setTemplate_frame h
    exact absurd rfl hne
  | pause c a =>
    obtain ⟨_, h2⟩ := setState_spec h
    rcases h2 with ⟨_, rfl⟩ | ⟨_, _, p, _, rfl⟩ <;> exact absurd rfl hne
  | resume c a =>
    obtain ⟨_, h2⟩ := setState_spec h
    rcases h2 with ⟨_, rfl⟩ | ⟨_, _, p, _, rfl⟩ <;> exact absurd rfl hne
  | setFeeOn c a tok =>
    obtain ⟨_, _, _, p, _, rfl⟩ := setFeeOn_spec h
    exact absurd rfl hne
  | setFeeOff c a i tok =>
    obtain ⟨_, _, _, p, _, _, _, rfl⟩ := setFeeOff_spec h
    exact absurd rfl hne
  | multi c tokIn amount hops =>
    obtain ⟨r, _, _, _, rfl⟩ := multiPairSwap_spec h
    exact absurd rfl hne
  | addInitial u a a1 a2 =>
    simp only [step, addInitial, Option.bind_eq_bind, Option.bind_eq_some_iff, Option.pure_def,
      Option.some.injEq, Prod.mk.injEq] at h
    obtain ⟨p, _, _, _, _, _, r, _, rfl, _⟩ := h
    exact absurd rfl hne
  | addLiq u a a1 a2 m1 m2 =>
    simp only [step, addLiq, Option.bind_eq_bind, Option.bind_eq_some_iff, Option.pure_def,
      Option.some.injEq, Prod.mk.injEq] at h
    obtain ⟨p, _, _, _, r, _, _, _, _, _, rfl, _⟩ := h
    exact absurd rfl hne
  | removeLiq u a lp m1 m2 =>
    simp only [step, removeLiq, Option.bind_eq_bind, Option.bind_eq_some_iff, Option.pure_def,
      Option.some.injEq, Prod.mk.injEq] at h
    obtain ⟨p, _, _, _, r, _, rfl, _⟩ := h
    exact absurd rfl hne
  | swapIn u a ti x tq m =>
    simp only [step, swapIn, Option.bind_eq_bind, Option.bind_eq_some_iff, Option.pure_def,
      Option.some.injEq, Prod.mk.injEq] at h
    obtain ⟨p, _, _, _, _, _, r, _, rfl, _⟩ := h
    exact absurd rfl hne
  | swapOut u a ti mx tq out =>
    simp only [step, swapOut, Option.bind_eq_bind, Option.bind_eq_some_iff, Option.pure_def,
      Option.some.injEq, Prod.mk.injEq] at h
    obtain ⟨p, _, _, _, _, _, r, _, rfl, _⟩ := h
    exact absurd rfl hne
  | configEnable c common locked mv mp =>
    obtain ⟨_, _, _, _, rfl⟩ := configEnable_spec h
    exact absurd rfl hne
  | addCommon c toks =>
    obtain ⟨_, _, rfl⟩ := addCommon_spec h
    exact absurd rfl hne
  | removeCommon c toks =>
    obtain ⟨_, rfl⟩ := removeCommon_spec h
    exact absurd rfl hne
  | enableByUser c a k amount =>
    obtain ⟨_, _, _, _, p, _, _, _, _, _, _, _, _, _, _, _, _, rfl⟩ := enableByUser_spec h
    exact absurd rfl hne
  | enablePlain c a tok amount => cases h
  | lock u coll orig amount unlock =>
    obtain ⟨_, _, _, h4⟩ := lockTokens_spec h
    rcases h4 with ⟨_, rfl, _⟩ | ⟨_, _, rfl⟩ <;> exact absurd rfl hne
  | unlock u k amount =>
    obtain ⟨_, _, _, _, rfl⟩ := unlockTokens_spec h
    exact absurd rfl hne
  | advance e =>
    obtain ⟨_, rfl⟩ := advance_spec h
    exact absurd rfl hne
  | setTmpPeriod c n =>
    obtain ⟨hc, _⟩ := setTmpPeriod_spec h
    exact ⟨n, by rw [hc]⟩
  | clearTmp c =>
    obtain ⟨_, _, rfl⟩ := clearTmp_spec h
    exact absurd rfl hne
  | issueLp c x =>
    obtain ⟨_, _, _, _, _, _, rfl⟩ := issueLp_spec h
    exact absurd rfl hne
  | setLocalRoles c x =>
    obtain ⟨_, _, _, _, rfl⟩ := setLocalRoles_spec (c := c) h
    exact absurd rfl hne
  | upgradePair c t1 t2 =>
    obtain ⟨_, _, _, _, _, _, _, rfl⟩ := upgradePair_spec h
    exact absurd rfl hne
  | advanceBlock n =>
    obtain ⟨_, _, rfl⟩ := advanceBlock_spec h
    exact absurd rfl hne
  | bareNext b =>
    obtain ⟨_, rfl⟩ := setBareNext_spec h
    exact absurd rfl hne

/-! ### the frame: registry, pair contracts and balances are untouched -/

/-- the five administration endpoints -/
def isAdminOp : Op → Bool
  | .setTmpPeriod _ _ | .clearTmp _ | .issueLp _ _ | .setLocalRoles _ _ | .upgradePair _ _ _ => true
  | _ => false

/-- none of the five endpoints changes the registry, any pair contract, the router's balances,
    the accounts' balances (plain or locked), the router's state flag, the pair-creation flag or
    the owner: every registry / conservation theorem of C14 is untouched by them -/
theorem admin_ops_frame {s s' : St} {op : Op} {o : Out} (hop : isAdminOp op = true)
    (h : step s op = some (s', o)) :
    s'.pairMap = s.pairMap ∧ s'.pairs = s.pairs ∧ s'.rbal = s.rbal ∧ s'.ubal = s.ubal ∧
    s'.lbal = s.lbal ∧ s'.addrs = s.addrs ∧ s'.nextAddr = s.nextAddr ∧ s'.active = s.active ∧
    s'.creationEnabled = s.creationEnabled ∧ s'.owner = s.owner ∧ s'.noLp = s.noLp := by
  cases op <;> simp only [isAdminOp, reduceCtorEq] at hop
  · obtain ⟨_, _, rfl⟩ := setTmpPeriod_spec h
    exact ⟨rfl, rfl, rfl, rfl, rfl, rfl, rfl, rfl, rfl, rfl, rfl⟩
  · obtain ⟨_, _, rfl⟩ := clearTmp_spec h
    exact ⟨rfl, rfl, rfl, rfl, rfl, rfl, rfl, rfl, rfl, rfl, rfl⟩
  · obtain ⟨_, _, _, _, _, _, rfl⟩ := issueLp_spec h
    exact ⟨rfl, rfl, rfl, rfl, rfl, rfl, rfl, rfl, rfl, rfl, rfl⟩
  · rename_i c a
    obtain ⟨_, _, _, _, rfl⟩ := setLocalRoles_spec (c := c) h
    exact ⟨rfl, rfl, rfl, rfl, rfl, rfl, rfl, rfl, rfl, rfl, rfl⟩
  · obtain ⟨_, _, _, _, _, _, _, rfl⟩ := upgradePair_spec h
    exact ⟨rfl, rfl, rfl, rfl, rfl, rfl, rfl, rfl, rfl, rfl, rfl⟩

/-! ### non-vacuity: closed examples on reachable states -/

/-- pair creation is made public; user 1 creates pair 1000 = (1,2) at block 0 and its LP token
    is not installed; the owner creates (3,2) = 1001 with its LP token; ten blocks pass -/
def exIssue : List Op :=
  [.setCreation 100 true, .bareNext true, .createPair 1 1 2 0 none, .bareNext false,
   .createPair 100 3 2 0 (some (300, 50)), .advanceBlock 10]

/-- during user 1's period (block 10 < 0 + 50) the router OWNER's `issueLpToken` on user 1's
    pair FAILS, so does user 2's; user 1's succeeds and leaves the entry in place;
    `setLocalRoles` on the token-less pair fails, on pair 1001 it succeeds for ANY account -/
example :
    let s := run (init 100 200 true [foreignPair 1 2 300 50] Mx.C14.exFunds) exIssue
    s.tmpOwners = [(1000, 1, 0), (1001, 100, 0)] ∧ s.noLp = [1000] ∧ s.tmpPeriod = 50 ∧
    (step s (.issueLp 100 1000)).isNone = true ∧ (step s (.issueLp 2 1000)).isNone = true ∧
    (step s (.issueLp 1 1000)).map (fun r => r.1.tmpOwners) =
      some [(1000, 1, 0), (1001, 100, 0)] ∧
    (step s (.issueLp 100 1001)).isNone = true ∧       -- LP token already issued
    (step s (.issueLp 1 900)).isNone = true ∧          -- foreign pair: not registered
    (step s (.setLocalRoles 2 1000)).isNone = true ∧
    (step s (.setLocalRoles 2 1001)).isSome = true ∧
    (step s (.setLocalRoles 2 900)).isNone = true := by
  decide

/-- after the period (block 50 ≥ 0 + 50) with pair creation public ANY account issues the LP
    token of user 1's pair — user 2, the owner — and the expired entry is removed; once the owner
    switches public creation off again only the owner can -/
example :
    let s := run (init 100 200 true [] Mx.C14.exFunds) (exIssue ++ [.advanceBlock 50])
    (step s (.issueLp 2 1000)).map (fun r => r.1.tmpOwners) = some [(1001, 100, 0)] ∧
    (step s (.issueLp 100 1000)).isSome = true ∧
    (step s (.issueLp 400 1000)).isSome = true ∧
    (let s2 := run s [.setCreation 100 false]
     (step s2 (.issueLp 2 1000)).isNone = true ∧ (step s2 (.issueLp 100 1000)).isSome = true) := by
  decide

/-- the owner may shorten the period instead of waiting: with period 10 the entry created at
    block 0 is expired at block 10; `clearPairTemporaryOwnerStorage` drops every entry and
    returns their number; both work on a paused router, where the three gated endpoints fail;
    a non-owner is refused -/
example :
    let s := run (init 100 200 true [] Mx.C14.exFunds) (exIssue ++ [.pause 100 200])
    s.active = false ∧
    (step s (.setTmpPeriod 100 10)).isSome = true ∧ (step s (.setTmpPeriod 1 10)).isNone = true ∧
    (step s (.clearTmp 100)).map (fun r => (r.2.v1, r.1.tmpOwners)) = some (2, []) ∧
    (step s (.clearTmp 1)).isNone = true ∧
    (step s (.issueLp 1 1000)).isNone = true ∧ (step s (.setLocalRoles 1 1001)).isNone = true ∧
    (step s (.upgradePair 100 1 2)).isNone = true ∧
    (let s2 := run s [.setTmpPeriod 100 10, .resume 100 200]
     (step s2 (.issueLp 100 1000)).map (fun r => r.1.tmpOwners) = some [(1001, 100, 0)] ∧
     (step s2 (.upgradePair 100 2 1)).isSome = true ∧ (step s2 (.upgradePair 1 2 1)).isNone = true ∧
     (step s2 (.upgradePair 100 1 3)).isNone = true) := by
  decide

/-- the period does change when the owner sets it (and only then) -/
example :
    let s := run (init 100 200 true [] Mx.C14.exFunds) exIssue
    (run s [.setTmpPeriod 1 7]).tmpPeriod = 50 ∧ (run s [.setTmpPeriod 100 7]).tmpPeriod = 7 := by
  decide

end Mx.C14Admin
