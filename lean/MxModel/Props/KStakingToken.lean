/-
  KStakingToken — the staking model's position attributes (`Core/Staking.lean`: `Attrs.intoPart`,
  `Attrs.mergeWith`) compute what the SOURCE of `StakingFarmTokenAttributes`
  (`farm-staking/farm-staking/src/token_attributes.rs`, `common/traits/fixed-supply-token`) computes.

  `Gen/KStakingToken.lean` is regenerated on every run by `bin/gen-kernels`.
-/
import MxModel.Gen.KStakingToken
import MxModel.Props.KMath
import MxModel.Core.Staking
import MxModel.Lemmas.KTactic

namespace Mx.KStakingToken
open Mx Mx.Gen Mx.Staking

/-- source `rule_of_three`: the full value for the full supply, otherwise
    `⌊full_value · current_supply / total_supply⌋`, aborting on a zero total supply -/
theorem rule_of_three_eq (x full total : Nat) :
    KStakingToken.rule_of_three x full total =
      if x = total then some full else if total = 0 then none else some (full * x / total) := by
  k_defs [KStakingToken.rule_of_three, KStakingToken.get_total_supply]
  k_solve

/-- source `into_part(payment_amount)` IS the model's `Attrs.intoPart` on the two fields it writes
    (`compounded_reward`, `current_farm_amount`) -/
theorem into_part_eq (t : Attrs) (x : Nat) :
    KStakingToken.into_part x t.compounded t.amount =
      (t.intoPart x).map (fun p => (p.compounded, p.amount)) := by
  k_defs [KStakingToken.into_part, KStakingToken.get_total_supply, Attrs.intoPart, rule_of_three_eq]
  k_solve

/-- `into_part` leaves the index and the original owner alone -/
theorem intoPart_frame {t p : Attrs} {x : Nat} (h : t.intoPart x = some p) :
    p.rps = t.rps ∧ p.owner = t.owner := by
  simp only [Attrs.intoPart] at h
  split at h
  · cases h; exact ⟨rfl, rfl⟩
  · simp only [Option.bind_eq_bind, Option.bind_eq_some_iff, req_eq_some, Option.pure_def,
      Option.some.injEq] at h
    obtain ⟨_, _, rfl⟩ := h
    exact ⟨rfl, rfl⟩

/-- source `merge_with(other)` IS the model's `Attrs.mergeWith` on the three fields it writes, in
    the order (compounded_reward, current_farm_amount, reward_per_share); aborts exactly when both
    amounts are 0 -/
theorem merge_with_eq (t o : Attrs) :
    KStakingToken.merge_with t.compounded t.amount t.rps o.compounded o.amount o.rps =
      (t.mergeWith o).map (fun m => (m.compounded, m.amount, m.rps)) := by
  k_defs [KStakingToken.merge_with, KStakingToken.get_total_supply, Attrs.mergeWith,
    Mx.KMath.weighted_average_round_up_eq, weightedAvgRoundUp, ceilDiv]
  k_solve

/-- `merge_with` keeps the original owner of the receiver -/
theorem mergeWith_frame {t o m : Attrs} (h : t.mergeWith o = some m) : m.owner = t.owner := by
  simp only [Attrs.mergeWith, Option.bind_eq_bind, Option.bind_eq_some_iff, req_eq_some,
    Option.pure_def, Option.some.injEq] at h
  obtain ⟨_, _, rfl⟩ := h
  rfl

/-- source `get_initial_farming_tokens` = `current_farm_amount − compounded_reward` (checked) -/
theorem get_initial_farming_tokens_eq (comp amt : Nat) :
    KStakingToken.get_initial_farming_tokens comp amt =
      if amt < comp then none else some (amt - comp) := by
  k_defs [KStakingToken.get_initial_farming_tokens]
  k_solve

example : KStakingToken.into_part 30 10 100 = some (3, 30) := by decide
example : KStakingToken.merge_with 1 10 100 2 20 101 = some (3, 30, 101) := by decide

end Mx.KStakingToken
