/-
  C11 — Boosted rewards: the factors in force per week (audit gap 16).

  `C11.factors_for_week` (farm) and `C11Staking.factors_for_week` (farm-staking) describe the 5-slot
  ring of boosted-yields factors under ONE update, assuming the stored ring is well formed
  (`WF cfg`, resp. `c.f.length = 5`).  Here that hypothesis is discharged: in EVERY state reachable
  from a fresh deployment, by any history of any operations with any arguments, a stored
  configuration has its 5 slots and `last_update_week ≤ current week`; and the factors recorded for
  a past week never change again while that week is claimable, over ANY continuation.

  Models: Core/Farm.lean (`St.b.cfg : Option BCfg`, written by `setFactors` and by
  `collectBoosted mem` inside the boosted claim), Core/Staking.lean (same cells).
  Helpers: Lemmas/FarmCfgInv.lean, Lemmas/StakingCfgInv.lean.
-/
import MxModel.Props.C11
import MxModel.Props.C11Staking
import MxModel.Lemmas.FarmCfgInv
import MxModel.Lemmas.StakingCfgInv

namespace Mx.C11Cfg

/-! ## farm (dex/farm, dex/farm-with-locked-rewards) -/

section farm
open Mx.Farm

/-- **cfg_wf_reachable (farm).**  In every state reachable from a fresh deployment (any farm kind,
    any parameters, any users list, any history) a stored boosted-yields configuration has its five
    slots, the current week exists, and the configuration's `last_update_week` is not after it. -/
theorem cfg_wf_reachable (kind : Kind) (sameTok : Bool) (dsc perBlock : Nat) (produce : Bool)
    (users : List Nat) (e0 : Nat) (ops : List Op) :
    let s := run (init kind sameTok dsc perBlock produce users e0) ops
    ∀ cfg, s.b.cfg = some cfg →
      WF cfg ∧ (∃ W, s.week = some W) ∧ (∀ W, s.week = some W → cfg.lastUpdateWeek ≤ W) := by
  intro s cfg hc
  obtain ⟨hwf, W, hW, hle⟩ := reachable_cfgOK kind sameTok dsc perBlock produce users e0 ops cfg hc
  have hW0 : s.week = some W := hW
  refine ⟨hwf, ⟨W, hW0⟩, fun W' hW' => ?_⟩
  rw [hW0] at hW'
  cases hW'
  exact hle

/-- one transaction keeps the invariant, for every operation and all arguments (the inductive step
    behind `cfg_wf_reachable`, usable from any state that satisfies it) -/
theorem cfg_wf_step {s s' : St} {op : Op} {o : Out}
    (hI : ∀ cfg, s.b.cfg = some cfg → WF cfg ∧ ∃ W, s.week = some W ∧ cfg.lastUpdateWeek ≤ W)
    (h : step s op = some (s', o)) :
    ∀ cfg, s'.b.cfg = some cfg → WF cfg ∧ ∃ W, s'.week = some W ∧ cfg.lastUpdateWeek ≤ W :=
  (step_trans h).ok (v := cfgv s) (v' := cfgv s') hI

/-- in a reachable state the update of the stored configuration to the current week — what every
    boosted claim and every `setBoostedYieldsFactors` starts with — never fails -/
theorem update_defined_reachable (kind : Kind) (sameTok : Bool) (dsc perBlock : Nat) (produce : Bool)
    (users : List Nat) (e0 : Nat) (ops : List Op) :
    let s := run (init kind sameTok dsc perBlock produce users e0) ops
    ∀ cfg W new, s.b.cfg = some cfg → s.week = some W → ∃ c', cfg.update W new = some c' := by
  intro s cfg W new hc hW
  exact BCfg.update_defined cfg new
    ((cfg_wf_reachable kind sameTok dsc perBlock produce users e0 ops cfg hc).2.2 W hW)

/-- **factors_for_week_reachable (farm).**  `C11.factors_for_week` with its well-formedness hypothesis
    discharged: for the configuration stored in ANY reachable state, an update to week `W` (time
    passing, with or without a new setting) keeps, for every week `w` still inside the claim window
    (`W < w + 5`), the factors that were in force in `w`: weeks before the previous update keep
    theirs, the weeks since the previous update carry the previously latest factors, and the
    current week gets the new setting (or keeps the latest one). -/
theorem factors_for_week_reachable (kind : Kind) (sameTok : Bool) (dsc perBlock : Nat)
    (produce : Bool) (users : List Nat) (e0 : Nat) (ops : List Op) :
    let s := run (init kind sameTok dsc perBlock produce users e0) ops
    ∀ cfg c' W w new, s.b.cfg = some cfg → cfg.update W new = some c' → W < w + 5 →
      (w < cfg.lastUpdateWeek → c'.factorsForWeek w = cfg.factorsForWeek w) ∧
      (cfg.lastUpdateWeek ≤ w → w < W → c'.factorsForWeek w = some cfg.latest) ∧
      (c'.latest = new.getD cfg.latest) ∧ WF c' ∧ c'.lastUpdateWeek = W := by
  intro s cfg c' W w new hc hu hw
  exact C11.factors_for_week
    (cfg_wf_reachable kind sameTok dsc perBlock produce users e0 ops cfg hc).1 hu hw

/-- **claim_factors_defined (farm).**  In a reachable state the boosted claim never aborts for want of
    factors: the in-memory configuration it works with (the stored one updated to the current week
    `W`) exists and answers for each of the four claimable weeks `W − 4 … W − 1`. -/
theorem claim_factors_defined (kind : Kind) (sameTok : Bool) (dsc perBlock : Nat) (produce : Bool)
    (users : List Nat) (e0 : Nat) (ops : List Op) :
    let s := run (init kind sameTok dsc perBlock produce users e0) ops
    ∀ cfg W, s.b.cfg = some cfg → s.week = some W →
      ∃ mem, cfg.update W none = some mem ∧
        ∀ w, w < W → W < w + 5 → ∃ fa, mem.factorsForWeek w = some fa := by
  intro s cfg W hc hW
  obtain ⟨hwf, _, hle⟩ := cfg_wf_reachable kind sameTok dsc perBlock produce users e0 ops cfg hc
  obtain ⟨mem, hm⟩ := BCfg.update_defined cfg none (hle W hW)
  obtain ⟨h1, h2⟩ := BCfg.update_wf hwf hm
  refine ⟨mem, hm, fun w hw1 hw2 => factorsForWeek_defined h1 (by rw [h2]; exact hw1) (by rw [h2]; exact hw2)⟩

/-- **factors_frozen (farm).**  Once a week is past, the factors recorded for it are frozen for as
    long as it is claimable: from a reachable state with stored configuration `cfg`, over ANY
    continuation `ops'` (claims, new settings, time passing, anything), a configuration `cfg'` is
    still stored, it is not older, and for every week `w` that was already past for `cfg`
    (`w < cfg.lastUpdateWeek`) and is still inside the window of `cfg'`
    (`cfg'.lastUpdateWeek < w + 5`) it returns exactly what `cfg` returned. -/
theorem factors_frozen (kind : Kind) (sameTok : Bool) (dsc perBlock : Nat) (produce : Bool)
    (users : List Nat) (e0 : Nat) (ops ops' : List Op) :
    let s := run (init kind sameTok dsc perBlock produce users e0) ops
    let s' := run s ops'
    ∀ cfg, s.b.cfg = some cfg →
      ∃ cfg', s'.b.cfg = some cfg' ∧ WF cfg' ∧ cfg.lastUpdateWeek ≤ cfg'.lastUpdateWeek ∧
        ∀ w, w < cfg.lastUpdateWeek → cfg'.lastUpdateWeek < w + 5 →
          cfg'.factorsForWeek w = cfg.factorsForWeek w := by
  intro s s' cfg hc
  obtain ⟨cfg', hc', hf⟩ := run_frozen ops' hc
    (cfg_wf_reachable kind sameTok dsc perBlock produce users e0 ops cfg hc).1
  exact ⟨cfg', hc', hf.wf, hf.mono, hf.keep⟩

/-- the same from ANY state (reachable or not) whose stored configuration is well formed -/
theorem factors_frozen_from {s : St} {cfg : BCfg} (hc : s.b.cfg = some cfg) (hw : WF cfg)
    (ops' : List Op) :
    ∃ cfg', (run s ops').b.cfg = some cfg' ∧ WF cfg' ∧ cfg.lastUpdateWeek ≤ cfg'.lastUpdateWeek ∧
      ∀ w, w < cfg.lastUpdateWeek → cfg'.lastUpdateWeek < w + 5 →
        cfg'.factorsForWeek w = cfg.factorsForWeek w := by
  obtain ⟨cfg', hc', hf⟩ := run_frozen ops' hc hw
  exact ⟨cfg', hc', hf.wf, hf.mono, hf.keep⟩

/-- non-vacuity: factors set in week 1, a boosted claim in week 2 (stores the config updated to
    week 2), NEW factors set in week 2, a boosted claim in week 3.  The stored config is at week 3,
    week 1 still answers with the old factors, week 2 with the new ones, and 2500 were paid. -/
example :
    let s := run (init .mint false 1000000000000 1000 true [1, 2] 0)
      [.setFactors OWNER ⟨10, 3, 2, 1, 1⟩, .setPct OWNER 2500, .setEnergy 1 1000000 0 1000,
       .enter 1 none 100000000 [], .advance 10 6, .claim 1 none [(1, 100000000)], .advance 10 7,
       .claimBoosted 1 none, .setFactors OWNER ⟨20, 1, 1, 2, 2⟩, .advance 20 14, .claimBoosted 1 none]
    s.week = some 3 ∧ s.b.cfg.map (·.lastUpdateWeek) = some 3 ∧
    s.b.cfg.map (·.ring.length) = some 5 ∧
    s.b.cfg.bind (·.factorsForWeek 1) = some ⟨10, 3, 2, 1, 1⟩ ∧
    s.b.cfg.bind (·.factorsForWeek 2) = some ⟨20, 1, 1, 2, 2⟩ ∧ s.paidBoosted = 2500 := by
  decide

/-- non-vacuity of `factors_frozen`: the state after the first eight operations stores a config at
    week 2 (so week 1 is past); after the continuation (new factors, a week passes, a claim) the
    stored config is at week 3 and week 1 still has the factors recorded before -/
example :
    let s := run (init .mint false 1000000000000 1000 true [1, 2] 0)
      [.setFactors OWNER ⟨10, 3, 2, 1, 1⟩, .setPct OWNER 2500, .setEnergy 1 1000000 0 1000,
       .enter 1 none 100000000 [], .advance 10 6, .claim 1 none [(1, 100000000)], .advance 10 7,
       .claimBoosted 1 none]
    let s' := run s [.setFactors OWNER ⟨20, 1, 1, 2, 2⟩, .advance 20 14, .claimBoosted 1 none]
    s.b.cfg.map (·.lastUpdateWeek) = some 2 ∧ s'.b.cfg.map (·.lastUpdateWeek) = some 3 ∧
    s.b.cfg.bind (·.factorsForWeek 1) = some ⟨10, 3, 2, 1, 1⟩ ∧
    s'.b.cfg.bind (·.factorsForWeek 1) = s.b.cfg.bind (·.factorsForWeek 1) := by
  decide

end farm

/-! ## farm-staking -/

section staking
open Mx.Staking Mx.Staking.CfgInv

/-- **cfg_wf_reachable (farm-staking).**  In every state reachable from a fresh deployment (any
    parameters, accounts, whitelist, any history) a stored boosted-yields configuration has its five
    slots and its `last_update_week` is not after the current week. -/
theorem staking_cfg_wf_reachable (epoch block dsc maxApr minUnbond perBlock : Nat)
    (accts wl : List Nat) (ops : List Op) :
    let s := run (init epoch block dsc maxApr minUnbond perBlock accts wl) ops
    ∀ c, s.b.cfg = some c → c.f.length = 5 ∧ c.lastUpdateWeek ≤ s.week :=
  reachable_cfgOK epoch block dsc maxApr minUnbond perBlock accts wl ops

/-- one transaction keeps the invariant, for every operation and all arguments -/
theorem staking_cfg_wf_step {s s' : St} {op : Op} {o : Out}
    (hI : ∀ c, s.b.cfg = some c → c.f.length = 5 ∧ c.lastUpdateWeek ≤ s.week)
    (h : step s op = some (s', o)) :
    ∀ c, s'.b.cfg = some c → c.f.length = 5 ∧ c.lastUpdateWeek ≤ s'.week :=
  (step_cstep h).ok hI

/-- in a reachable state the update of the stored configuration to the current week — what every
    boosted claim and every `setBoostedYieldsFactors` starts with — never fails -/
theorem staking_update_defined_reachable (epoch block dsc maxApr minUnbond perBlock : Nat)
    (accts wl : List Nat) (ops : List Op) :
    let s := run (init epoch block dsc maxApr minUnbond perBlock accts wl) ops
    ∀ c new, s.b.cfg = some c → ∃ c', c.update s.week new = some c' := by
  intro s c new hc
  obtain ⟨hl, hle⟩ := reachable_cfgOK epoch block dsc maxApr minUnbond perBlock accts wl ops c hc
  exact BCfg.update_defined c new hl hle

/-- **factors_for_week_reachable (farm-staking).**  `C11Staking.factors_for_week` with its length
    hypothesis discharged: for the configuration stored in ANY reachable state, an update to week
    `W` keeps five slots, moves `last_update_week` to `W`, makes the new factors (or keeps the
    latest) the latest ones, keeps the factors of every week before the previous update that is
    still in the window, and gives the weeks since the previous update the previously latest
    factors. -/
theorem staking_factors_for_week_reachable (epoch block dsc maxApr minUnbond perBlock : Nat)
    (accts wl : List Nat) (ops : List Op) :
    let s := run (init epoch block dsc maxApr minUnbond perBlock accts wl) ops
    ∀ c c' W new, s.b.cfg = some c → c.update W new = some c' →
      c'.f.length = 5 ∧ c'.lastUpdateWeek = W ∧
      (∃ last, c.latest = some last ∧ c'.latest = some (new.getD last)) ∧
      (∀ w, w < c.lastUpdateWeek → W - w < 5 → c'.factorsForWeek w = c.factorsForWeek w) ∧
      (∀ w, c.lastUpdateWeek ≤ w → w < W → W - w < 5 → c'.factorsForWeek w = c.latest) := by
  intro s c c' W new hc hu
  exact C11Staking.factors_for_week
    (reachable_cfgOK epoch block dsc maxApr minUnbond perBlock accts wl ops c hc).1 hu

/-- **claim_factors_defined (farm-staking).**  In a reachable state the boosted claim never aborts
    for want of factors: the in-memory configuration it works with (the stored one updated to the
    current week) exists and answers for each of the four claimable weeks. -/
theorem staking_claim_factors_defined (epoch block dsc maxApr minUnbond perBlock : Nat)
    (accts wl : List Nat) (ops : List Op) :
    let s := run (init epoch block dsc maxApr minUnbond perBlock accts wl) ops
    ∀ c, s.b.cfg = some c →
      ∃ c', c.update s.week none = some c' ∧
        ∀ w, w < s.week → s.week - w < 5 → ∃ x, c'.factorsForWeek w = some x := by
  intro s c hc
  obtain ⟨hl, hle⟩ := reachable_cfgOK epoch block dsc maxApr minUnbond perBlock accts wl ops c hc
  obtain ⟨c', hu⟩ := BCfg.update_defined c none hl hle
  obtain ⟨_, h1, h2, _⟩ := BCfg.update_spec hl hu
  refine ⟨c', hu, fun w hw1 hw2 =>
    BCfg.factorsForWeek_defined h1 (by rw [h2]; exact hw1) (by rw [h2]; exact hw2)⟩

/-- **factors_frozen (farm-staking).**  Once a week is past, the factors recorded for it are frozen
    for as long as it is claimable: from a reachable state with stored configuration `c`, over ANY
    continuation `ops'`, a configuration `c'` is still stored, it is not older, and for every week
    `w` that was already past for `c` and is still inside the window of `c'` it returns exactly what
    `c` returned. -/
theorem staking_factors_frozen (epoch block dsc maxApr minUnbond perBlock : Nat)
    (accts wl : List Nat) (ops ops' : List Op) :
    let s := run (init epoch block dsc maxApr minUnbond perBlock accts wl) ops
    let s' := run s ops'
    ∀ c, s.b.cfg = some c →
      ∃ c', s'.b.cfg = some c' ∧ c'.f.length = 5 ∧ c.lastUpdateWeek ≤ c'.lastUpdateWeek ∧
        ∀ w, w < c.lastUpdateWeek → c'.lastUpdateWeek - w < 5 →
          c'.factorsForWeek w = c.factorsForWeek w := by
  intro s s' c hc
  obtain ⟨c', hc', hf⟩ := run_frozen ops' hc
    (reachable_cfgOK epoch block dsc maxApr minUnbond perBlock accts wl ops c hc).1
  exact ⟨c', hc', hf.len, hf.mono, hf.keep⟩

/-- the same from ANY state (reachable or not) whose stored configuration has five slots -/
theorem staking_factors_frozen_from {s : St} {c : BCfg} (hc : s.b.cfg = some c)
    (hl : c.f.length = 5) (ops' : List Op) :
    ∃ c', (run s ops').b.cfg = some c' ∧ c'.f.length = 5 ∧ c.lastUpdateWeek ≤ c'.lastUpdateWeek ∧
      ∀ w, w < c.lastUpdateWeek → c'.lastUpdateWeek - w < 5 →
        c'.factorsForWeek w = c.factorsForWeek w := by
  obtain ⟨c', hc', hf⟩ := run_frozen ops' hc hl
  exact ⟨c', hc', hf.len, hf.mono, hf.keep⟩

/-- non-vacuity: factors set in week 1, a claim in week 2 (stores the config updated to week 2),
    NEW factors set in week 2, a boosted claim in week 3.  The stored config is at week 3, week 1
    still answers with the old factors, week 2 with the new ones. -/
example :
    let s := run (init 5 10 1000000000000 1000000 5 5000 [1, 2, 101] [101])
      [.topUp 100000000, .setBoostedPct 2500, .setFactors ⟨10, 3, 2, 1, 1⟩, .setEnergy 1 10000 100,
       .stake 1 none 100000000000 [], .advance 10 0, .claimBoosted 1 none, .advance 1 7,
       .claim 1 none (1, 100000000000), .setFactors ⟨20, 1, 1, 2, 2⟩, .advance 5 7,
       .claimBoosted 1 none]
    s.week = 3 ∧ s.b.cfg.map (·.lastUpdateWeek) = some 3 ∧ s.b.cfg.map (·.f.length) = some 5 ∧
    s.b.cfg.bind (·.factorsForWeek 1) = some ⟨10, 3, 2, 1, 1⟩ ∧
    s.b.cfg.bind (·.factorsForWeek 2) = some ⟨20, 1, 1, 2, 2⟩ ∧ s.paidBoosted = 13750 := by
  decide

/-- non-vacuity of `staking_factors_frozen`: after nine operations the stored config is at week 2;
    after the continuation (new factors, a week passes, a claim) it is at week 3 and week 1 still
    has the factors recorded before -/
example :
    let s := run (init 5 10 1000000000000 1000000 5 5000 [1, 2, 101] [101])
      [.topUp 100000000, .setBoostedPct 2500, .setFactors ⟨10, 3, 2, 1, 1⟩, .setEnergy 1 10000 100,
       .stake 1 none 100000000000 [], .advance 10 0, .claimBoosted 1 none, .advance 1 7,
       .claim 1 none (1, 100000000000)]
    let s' := run s [.setFactors ⟨20, 1, 1, 2, 2⟩, .advance 5 7, .claimBoosted 1 none]
    s.b.cfg.map (·.lastUpdateWeek) = some 2 ∧ s'.b.cfg.map (·.lastUpdateWeek) = some 3 ∧
    s.b.cfg.bind (·.factorsForWeek 1) = some ⟨10, 3, 2, 1, 1⟩ ∧
    s'.b.cfg.bind (·.factorsForWeek 1) = s.b.cfg.bind (·.factorsForWeek 1) := by
  decide

end staking

end Mx.C11Cfg
