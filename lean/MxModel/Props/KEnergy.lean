/-
  KEnergy — the model's energy-entry operations compute what the SOURCE of
  `locked-asset/energy-factory/src/energy.rs` (the `Energy` struct methods) computes.

  `Gen/KEnergy.lean` is regenerated on every run by `bin/gen-kernels` from the Rust text: the
  struct fields `amount : BigInt` (= `Int`), `last_update_epoch`, `total_locked_tokens` are explicit
  inputs, the fields a method assigns are its outputs.  Two models use that record:

  * `Core/Energy.lean`  : `Energy.Entry` (`E`, `last`, `T`) with `add`, `subtract`, `deplete`,
    `addAfterLock`, `refundAfterUnlock`, `depleteAfterEarly`, `afterUnlockAny`, `addExpired`, `amount`;
  * `Core/Weekly.lean`  : `Weekly.Energy` (`amount`, `lastUpdateEpoch`, `totalLocked`) with `deplete`,
    `getEnergyAmount` (the copy that fees-collector / farm / staking read through `energy_query`).

  Every theorem is an equality of the written fields: the source method applied to the fields of a
  model entry returns exactly the fields of the model's result, and aborts exactly when the model
  operation fails (the checked `BigUint` subtraction of `total_locked_tokens`).
-/
import MxModel.Gen.KEnergy
import MxModel.Core.Energy
import MxModel.Core.Weekly
import MxModel.Lemmas.KTactic

namespace Mx.KEnergy
open Mx Mx.Gen

/-! ### `Energy.Entry` of the energy-factory model

  Proof style (Lemmas/KTactic.lean): unfold the translated source methods and the model operations
  down to arithmetic, then `k_solve` (split every `if`, normalise, close by linear arithmetic or by
  contradiction between the branch conditions).  No proof step names a branch condition or an
  operand order of the generated text. -/

/-- source `add(future, current, amount_per_epoch)` = model `Entry.add` (never aborts; `amount`
    is the only field written) -/
theorem add_eq (e : Energy.Entry) (future cur amt : Nat) :
    KEnergy.add future cur amt e.E = some (e.add future cur amt).E := by
  k_defs [KEnergy.add, Energy.Entry.add]
  k_solve

/-- `add` leaves `last_update_epoch` and `total_locked_tokens` alone -/
theorem add_frame (e : Energy.Entry) (future cur amt : Nat) :
    (e.add future cur amt).last = e.last ∧ (e.add future cur amt).T = e.T := by
  simp only [Energy.Entry.add]; split <;> exact ⟨rfl, rfl⟩

/-- source `subtract(past, current, amount_per_epoch)` = model `Entry.subtract` -/
theorem subtract_eq (e : Energy.Entry) (past cur amt : Nat) :
    KEnergy.subtract past cur amt e.E = some (e.subtract past cur amt).E := by
  k_defs [KEnergy.subtract, Energy.Entry.subtract]
  k_solve

/-- `subtract` leaves `last_update_epoch` and `total_locked_tokens` alone -/
theorem subtract_frame (e : Energy.Entry) (past cur amt : Nat) :
    (e.subtract past cur amt).last = e.last ∧ (e.subtract past cur amt).T = e.T := by
  simp only [Energy.Entry.subtract]; split <;> exact ⟨rfl, rfl⟩

/-- source `deplete(current_epoch)` = model `Entry.deplete`: same `amount`, same
    `last_update_epoch`; never aborts -/
theorem deplete_eq (e : Energy.Entry) (now : Nat) :
    KEnergy.deplete now e.E e.last e.T = some ((e.deplete now).E, (e.deplete now).last) := by
  k_defs [KEnergy.deplete, KEnergy.subtract, Energy.Entry.deplete, Energy.Entry.subtract]
  k_solve

/-- `deplete` does not touch `total_locked_tokens` -/
theorem deplete_frame (e : Energy.Entry) (now : Nat) : (e.deplete now).T = e.T := by
  simp only [Energy.Entry.deplete]
  split
  · rfl
  · split
    · exact (subtract_frame e e.last now e.T).2
    · rfl

/-- source `get_energy_amount` = model `Entry.amount` (negative amounts read as 0) -/
theorem get_energy_amount_eq (e : Energy.Entry) :
    KEnergy.get_energy_amount e.E = some e.amount := by
  k_defs [KEnergy.get_energy_amount, Energy.Entry.amount]
  k_solve

/-- source `add_after_token_lock(lock_amount, unlock_epoch, current_epoch)` = model `addAfterLock` -/
theorem add_after_token_lock_eq (e : Energy.Entry) (amt unlock now : Nat) :
    KEnergy.add_after_token_lock amt unlock now e.E e.T =
      some ((e.addAfterLock amt unlock now).E, (e.addAfterLock amt unlock now).T) := by
  k_defs [KEnergy.add_after_token_lock, KEnergy.add, Energy.Entry.addAfterLock, Energy.Entry.add]
  k_solve

/-- `addAfterLock` keeps `last_update_epoch` -/
theorem addAfterLock_frame (e : Energy.Entry) (amt unlock now : Nat) :
    (e.addAfterLock amt unlock now).last = e.last := by
  simp only [Energy.Entry.addAfterLock]; exact (add_frame e unlock now amt).1

/-- source `refund_after_token_unlock` IS the model's `refundAfterUnlock` (same written fields,
    and it aborts exactly when the model fails: `total_locked_tokens < unlock_amount`) -/
theorem refund_after_token_unlock_eq (e : Energy.Entry) (amt unlock now : Nat) :
    KEnergy.refund_after_token_unlock amt unlock now e.E e.T =
      (e.refundAfterUnlock amt unlock now).map (fun e' => (e'.E, e'.T)) := by
  k_defs [KEnergy.refund_after_token_unlock, KEnergy.add, Energy.Entry.refundAfterUnlock,
    Energy.Entry.add]
  k_solve

/-- source `deplete_after_early_unlock` IS the model's `depleteAfterEarly` -/
theorem deplete_after_early_unlock_eq (e : Energy.Entry) (amt unlock now : Nat) :
    KEnergy.deplete_after_early_unlock amt unlock now e.E e.T =
      (e.depleteAfterEarly amt unlock now).map (fun e' => (e'.E, e'.T)) := by
  k_defs [KEnergy.deplete_after_early_unlock, KEnergy.subtract, Energy.Entry.depleteAfterEarly,
    Energy.Entry.subtract]
  k_solve

/-- source `update_after_unlock_any` IS the model's `afterUnlockAny` (refund when the unlock epoch
    has passed, early-unlock depletion otherwise; at `unlock = current` the two branches coincide,
    both change the amount by 0) -/
theorem update_after_unlock_any_eq (e : Energy.Entry) (amt unlock now : Nat) :
    KEnergy.update_after_unlock_any amt unlock now e.E e.T =
      (e.afterUnlockAny amt unlock now).map (fun e' => (e'.E, e'.T)) := by
  k_defs [KEnergy.update_after_unlock_any, KEnergy.refund_after_token_unlock,
    KEnergy.deplete_after_early_unlock, KEnergy.add, KEnergy.subtract, Energy.Entry.afterUnlockAny,
    Energy.Entry.refundAfterUnlock, Energy.Entry.depleteAfterEarly, Energy.Entry.add,
    Energy.Entry.subtract]
  k_solve

/-- a successful model `afterUnlockAny` keeps `last_update_epoch` -/
theorem afterUnlockAny_frame {e e' : Energy.Entry} {amt unlock now : Nat}
    (h : e.afterUnlockAny amt unlock now = some e') : e'.last = e.last := by
  simp only [Energy.Entry.afterUnlockAny, Energy.Entry.refundAfterUnlock,
    Energy.Entry.depleteAfterEarly] at h
  split at h
  · simp only [Option.bind_eq_bind, Option.bind_eq_some_iff, Option.pure_def,
      Option.some.injEq] at h
    obtain ⟨_, _, rfl⟩ := h
    exact (add_frame e now unlock amt).1
  · simp only [Option.bind_eq_bind, Option.bind_eq_some_iff, Option.pure_def,
      Option.some.injEq] at h
    obtain ⟨_, _, rfl⟩ := h
    exact (subtract_frame e now unlock amt).1

/-- source `update_after_unlock_epoch_change(amount, old_unlock, new_unlock, current)` — the entry
    update of `extend_lock_period` — IS the model's `afterUnlockAny` on the old epoch followed by
    `addAfterLock` on the new one (as `extendLock` does) -/
theorem update_after_unlock_epoch_change_eq (e : Energy.Entry) (amt old new now : Nat) :
    KEnergy.update_after_unlock_epoch_change amt old new now e.E e.T =
      (e.afterUnlockAny amt old now).map
        (fun e0 => ((e0.addAfterLock amt new now).E, (e0.addAfterLock amt new now).T)) := by
  k_defs [KEnergy.update_after_unlock_epoch_change, update_after_unlock_any_eq]
  cases e.afterUnlockAny amt old now with
  | none => rfl
  | some e0 =>
    simp only [Option.map_some, Option.bind_eq_bind, Option.bind_some, add_after_token_lock_eq,
      Option.pure_def]

/-- the raw pair used for already-unlockable tokens (cancel_unstake.rs / energy_transfer.rs):
    source `add_energy_raw(amt, 0)` then `remove_energy_raw(0, amt · (now − unlock))` = model
    `addExpired` -/
theorem add_remove_raw_eq (e : Energy.Entry) (amt unlock now : Nat) :
    (do let (a, t) ← KEnergy.add_energy_raw amt 0 e.E e.T
        KEnergy.remove_energy_raw 0 (amt * (now - unlock)) a t) =
      some ((e.addExpired amt unlock now).E, (e.addExpired amt unlock now).T) := by
  k_defs [KEnergy.add_energy_raw, KEnergy.remove_energy_raw, Energy.Entry.addExpired]
  k_solve

/-- source `add_energy_raw` adds both fields and never aborts -/
theorem add_energy_raw_eq (lockAmt : Nat) (en a : Int) (t : Nat) :
    KEnergy.add_energy_raw lockAmt en a t = some (a + en, t + lockAmt) := by
  k_defs [KEnergy.add_energy_raw]
  k_solve

/-- source `remove_energy_raw` subtracts both fields; aborts exactly when more tokens are removed
    than are locked -/
theorem remove_energy_raw_eq (lockAmt en : Nat) (a : Int) (t : Nat) :
    KEnergy.remove_energy_raw lockAmt en a t =
      if t < lockAmt then none else some (a - (en : Int), t - lockAmt) := by
  k_defs [KEnergy.remove_energy_raw]
  k_solve

/-! ### `Weekly.Energy` (the copy read through `energy_query` by the weekly-rewards modules) -/

/-- source `deplete(current_epoch)` = model `Weekly.Energy.deplete`: same `amount`, same
    `last_update_epoch` (also when the epoch lies in the past: only the epoch is overwritten) -/
theorem weekly_deplete_eq (e : Weekly.Energy) (epoch : Nat) :
    KEnergy.deplete epoch e.amount e.lastUpdateEpoch e.totalLocked =
      some ((e.deplete epoch).amount, (e.deplete epoch).lastUpdateEpoch) := by
  k_defs [KEnergy.deplete, KEnergy.subtract, Weekly.Energy.deplete]
  k_solve

/-- `Weekly.Energy.deplete` does not touch `total_locked_tokens` -/
theorem weekly_deplete_frame (e : Weekly.Energy) (epoch : Nat) :
    (e.deplete epoch).totalLocked = e.totalLocked := by
  simp only [Weekly.Energy.deplete]; split <;> rfl

/-- source `get_energy_amount` = model `Weekly.Energy.getEnergyAmount` -/
theorem weekly_get_energy_amount_eq (e : Weekly.Energy) :
    KEnergy.get_energy_amount e.amount = some e.getEnergyAmount := by
  k_defs [KEnergy.get_energy_amount, Weekly.Energy.getEnergyAmount]
  k_solve

/-- the two models of the entry agree: same fields in, same fields out of `deplete` -/
theorem deplete_models_agree (e : Energy.Entry) (now : Nat) :
    (Weekly.Energy.deplete ⟨e.E, e.last, e.T⟩ now).amount = (e.deplete now).E ∧
    (Weekly.Energy.deplete ⟨e.E, e.last, e.T⟩ now).lastUpdateEpoch = (e.deplete now).last ∧
    (Weekly.Energy.deplete ⟨e.E, e.last, e.T⟩ now).totalLocked = (e.deplete now).T := by
  have h1 := weekly_deplete_eq ⟨e.E, e.last, e.T⟩ now
  have h2 := deplete_eq e now
  simp only [] at h1
  rw [h2] at h1
  simp only [Option.some.injEq, Prod.mk.injEq] at h1
  exact ⟨h1.1.symm, h1.2.symm, by rw [weekly_deplete_frame, deplete_frame]⟩

example : KEnergy.deplete 12 100 10 7 = some (86, 12) := by decide
example : KEnergy.deplete 8 100 10 7 = some (100, 8) := by decide
example : KEnergy.refund_after_token_unlock 5 3 10 0 4 = none := by decide
example : KEnergy.update_after_unlock_epoch_change 5 20 50 10 100 5 = some (250, 5) := by decide
example : KEnergy.get_energy_amount (-3) = some 0 := by decide

end Mx.KEnergy
