/-
  C10 — Weekly fees, history-level statements (session 4, closes audit items 7 and 12):

  1. PAID LOG.  `Fees.paidLog s₀ ops` is a function of the history: one entry
     `(user, week, token, amount)` per payment, read off the successful claim operations (the
     claimer is the operation's original caller; week / token / amount are the growth of the
     per-week ledger `paid` over the entries of the week's frozen `totalRewardsForWeek`).
       * `paid_log_once`      no (user, week, token) occurs twice in the log of ANY history;
       * `paid_log_window`    every entry is for a week `w` with `current − 4 ≤ w < current`;
       * `paid_log_amount`    every entry's amount is `⌊total · e / E⌋` on the week's frozen total,
                              the claimer's recorded energy decayed to that week, the week's total energy;
       * `paid_log_complete`  the ledger `paid w t` is exactly the sum of the log — the log misses nothing.
  2. DENOMINATOR.  `denominator_at_close`: for as long as a week is claimable, `totalEnergyForWeek(w)`
     equals Σ over all participants of their recorded energy decayed to `w`, taken at the last moment
     `w` was the running global week (`Fees.closeSum`); `closed_week_frozen`: afterwards it never
     changes (it can only be cleared, five weeks later).  Against the CURRENT records, or against the
     factory's CURRENT energies, equality is false (`denominator_not_current`, `denominator_not_factory`).
  3. DEPOSITED LEDGER.  `Fees.deposited s₀ ops w t` is a function of the history (deposit operations,
     plus the per-block top-ups of the locked token).  `deposited_ledger`: accumulated + frozen =
     deposited; `paid_le_deposited`; `collector_solvent_full`: balance = Σ_w (deposited − paid).

  Lemmas: Lemmas/FeesLog.lean, FeesLogRun.lean, FeesDeposit.lean, FeesClose.lean, WeeklyClose.lean.
-/
import MxModel.Props.C10
import MxModel.Lemmas.FeesClose

namespace Mx.C10Once

open Mx.Weekly Mx.Fees

/-! ### 1. the paid log -/

/-- the log of a history is the concatenation of the per-operation logs taken in the states the
    history runs through: every entry was produced by some operation `op` executed in the state
    reached by the operations before it -/
theorem paid_log_entries (ops : List Op) : ∀ (s : Fees.St) (e : Entry), e ∈ paidLog s ops →
    ∃ ops1 op ops2, ops = ops1 ++ op :: ops2 ∧ e ∈ stepLog (run s ops1) op := by
  induction ops with
  | nil => intro s e h; cases h
  | cons op ops ih =>
    intro s e h
    simp only [paidLog, List.mem_append] at h
    rcases h with h | h
    · exact ⟨[], op, ops, rfl, h⟩
    · obtain ⟨ops1, op', ops2, rfl, he⟩ := ih _ e h
      exact ⟨op :: ops1, op', ops2, rfl, by rw [run_cons]; exact he⟩

/-- **paid at most once.**  In the paid log of ANY history from a freshly deployed collector, no
    two entries (at different positions) have the same user, week and reward token: every claimer
    is paid at most once per week and token — whatever happens in between (energy changes, other
    claims, `updateEnergyForUser`, configuration changes, idle weeks). -/
theorem paid_log_once (epoch lockEpochs : Nat) (known : List Tok) (contracts whitelist : List Nat)
    (ops : List Op) :
    (paidLog (init epoch lockEpochs known contracts whitelist) ops).Pairwise
      (fun e e' => ¬ (e.user = e'.user ∧ e.week = e'.week ∧ e.tok = e'.tok)) := by
  have := paidLog_once_from ops (init_AllInv epoch lockEpochs known contracts whitelist)
    (pre := []) (fun _ h => by cases h) List.Pairwise.nil
  simpa [sameKey] using this

/-- **only the four most recent completed weeks.**  Every entry an operation adds to the log —
    in any state whatsoever — is a payment to the operation's claim user (`original_caller`, else
    the caller) for a week `w` with `current_week − 4 ≤ w < current_week` at the time of payment,
    and not before the week of the claimer's stored progress. -/
theorem paid_log_window (s : Fees.St) (op : Op) (e : Entry) (h : e ∈ stepLog s op) :
    claimUser op = some e.user ∧ curWeek s ≤ e.week + 4 ∧ e.week < curWeek s ∧
    ∃ p, s.w.progress e.user = some p ∧ p.week ≤ e.week :=
  stepLog_window h

/-- **the amount is the property's formula.**  After ANY history, whatever the next operation is,
    every entry `(u, w, t, amount)` it adds to the log satisfies
    `amount = ⌊total · e / E⌋ > 0` where `total` is the amount frozen for week `w` and token `t`
    (an entry of `totalRewardsForWeek(w)`, equal to the ledger's `collected w t`), `e` is `u`'s
    recorded energy decayed to week `w` (from the progress entry stored before the operation) and
    `E = totalEnergyForWeek(w)` (unchanged by the operation). -/
theorem paid_log_amount (epoch lockEpochs : Nat) (known : List Tok) (contracts whitelist : List Nat)
    (ops : List Op) (op : Op) (e : Entry) :
    let s := run (init epoch lockEpochs known contracts whitelist) ops
    let s' := next s op
    e ∈ stepLog s op →
      e.amount = share (s'.a.collected e.week e.tok) (C10.energyFor s.w e.user e.week)
        (s.w.totalEnergy e.week) ∧
      (e.tok, s'.a.collected e.week e.tok) ∈ s'.w.totalRewards e.week ∧
      0 < e.amount ∧ s'.w.totalEnergy e.week = s.w.totalEnergy e.week := by
  intro s s' h
  have hI : AllInv s := run_AllInv ops (init_AllInv epoch lockEpochs known contracts whitelist)
  obtain ⟨h1, h2, h3, h4⟩ := stepLog_amount hI h
  obtain ⟨_, _, _, p, hp, hple⟩ := stepLog_window h
  refine ⟨?_, h2, h3, h4⟩
  rw [h1]
  unfold C10.energyFor eForP
  rw [hp]
  simp only [hple, if_true]
  rfl

/-- Σ of the amounts the log holds for week `w` and token `t` -/
def logged (l : List Entry) (w : Nat) (t : Tok) : Nat := logSum l w t

/-- **the log is complete.**  After ANY history, for every week and token, the running ledger
    `paid w t` of the model is exactly the sum of the logged payments for that week and token: no
    payment escapes the log (so `paid_log_once` / `_window` / `_amount` speak about ALL payments). -/
theorem paid_log_complete (epoch lockEpochs : Nat) (known : List Tok)
    (contracts whitelist : List Nat) (ops : List Op) (w : Nat) (t : Tok) :
    (run (init epoch lockEpochs known contracts whitelist) ops).a.paid w t =
      logged (paidLog (init epoch lockEpochs known contracts whitelist) ops) w t := by
  have := paidLog_sum_from ops (init_AllInv epoch lockEpochs known contracts whitelist) w t
  rw [this]
  show 0 + _ = _
  rw [Nat.zero_add]; rfl

/-! ### 2. the denominator -/

/-- **denominator at close.**  After ANY history and for every week `w` that has not been cleared
    (in particular every claimable week: `lastGlobalUpdateWeek ≤ w + 4`), the stored
    `totalEnergyForWeek(w)` equals `closeSum`: the sum over ALL participants of their recorded
    energies decayed to week `w`, as recorded in the last state of the history in which `w` was
    the running global week (0 if the collector was never touched during `w`).  Equality, not `≤`. -/
theorem denominator_at_close (epoch lockEpochs : Nat) (known : List Tok)
    (contracts whitelist : List Nat) (ops : List Op) (w : Nat) :
    let s0 := init epoch lockEpochs known contracts whitelist
    let s := run s0 ops
    s.w.lastGlobalUpdateWeek ≤ w + 4 → s.w.totalEnergy w = closeSum w s0 ops 0 := by
  intro s0 s hle
  have hx : s.w.totalEnergy w = closeSum w s0 ops 0 ∨
      (s.w.totalEnergy w = 0 ∧ w + 4 < s.w.lastGlobalUpdateWeek) :=
    closeSum_exact_from w ops (init_AllInv epoch lockEpochs known contracts whitelist)
      (init_CloseInv epoch lockEpochs known contracts whitelist w)
  rcases hx with h | ⟨_, h⟩
  · exact h
  · exact absurd hle (by omega)

/-- the same without the side condition: equal, or cleared (possible only once the global week is
    at least `w + 5`, when nobody can claim `w` any more) -/
theorem denominator_at_close_or_cleared (epoch lockEpochs : Nat) (known : List Tok)
    (contracts whitelist : List Nat) (ops : List Op) (w : Nat) :
    let s0 := init epoch lockEpochs known contracts whitelist
    let s := run s0 ops
    s.w.totalEnergy w = closeSum w s0 ops 0 ∨
      (s.w.totalEnergy w = 0 ∧ w + 4 < s.w.lastGlobalUpdateWeek) :=
  closeSum_exact_from w ops (init_AllInv epoch lockEpochs known contracts whitelist)
    (init_CloseInv epoch lockEpochs known contracts whitelist w)

/-- while `w` IS the running global week the sum is over the current records: the total energy of
    the running week is Σ participants' recorded energies decayed to it (this is what `closeSum`
    remembers when the week is left) -/
theorem denominator_running_week (epoch lockEpochs : Nat) (known : List Tok)
    (contracts whitelist : List Nat) (ops : List Op) :
    let s := run (init epoch lockEpochs known contracts whitelist) ops
    s.w.totalEnergy s.w.lastGlobalUpdateWeek = recordedSum s.w s.w.lastGlobalUpdateWeek :=
  (run_AllInv ops (init_AllInv epoch lockEpochs known contracts whitelist)).w.1.energy_eq

/-- **a closed week's denominator is frozen.**  After ANY history, whatever the next operation:
    the global week never moves back, and every week other than the (new) global week keeps its
    total energy — except week `lastGlobalUpdateWeek − 5`, which is cleared. -/
theorem closed_week_frozen (epoch lockEpochs : Nat) (known : List Tok)
    (contracts whitelist : List Nat) (ops : List Op) (op : Op) :
    let s := run (init epoch lockEpochs known contracts whitelist) ops
    let s' := next s op
    s.w.lastGlobalUpdateWeek ≤ s'.w.lastGlobalUpdateWeek ∧
    ∀ w, w ≠ s'.w.lastGlobalUpdateWeek →
      s'.w.totalEnergy w = s.w.totalEnergy w ∨
        (s'.w.totalEnergy w = 0 ∧ w + 5 = s'.w.lastGlobalUpdateWeek) := by
  intro s s'
  have hI : AllInv s := run_AllInv ops (init_AllInv epoch lockEpochs known contracts whitelist)
  have := next_EStep hI.w.1 op
  exact ⟨this.mono, this.frame⟩

/-! ### 3. the deposited ledger -/

/-- **deposited ledger.**  After ANY history, for every week and token: what is still accumulating
    for the week plus what was frozen for it is exactly what the history deposited for it (deposit
    operations made during that week; for the locked token also the per-block top-ups). -/
theorem deposited_ledger (epoch lockEpochs : Nat) (known : List Tok) (contracts whitelist : List Nat)
    (ops : List Op) (w : Nat) (t : Tok) :
    let s0 := init epoch lockEpochs known contracts whitelist
    let s := run s0 ops
    s.a.accumulated w t + s.a.collected w t = deposited s0 ops w t := by
  intro s0 s
  have := owed_eq_deposited_from ops s0 w t
  rw [this]
  show 0 + 0 + _ = _
  omega

/-- **Σ paid for `w` ≤ deposited for `w`** (every history, every week, every token): the frozen
    total is at most what was deposited, and the payments are at most the frozen total. -/
theorem paid_le_deposited (epoch lockEpochs : Nat) (known : List Tok) (contracts whitelist : List Nat)
    (ops : List Op) (w : Nat) (t : Tok) :
    let s0 := init epoch lockEpochs known contracts whitelist
    let s := run s0 ops
    s.a.paid w t ≤ s.a.collected w t ∧ s.a.collected w t ≤ deposited s0 ops w t ∧
    logged (paidLog s0 ops) w t ≤ deposited s0 ops w t := by
  intro s0 s
  have h1 : s.a.paid w t ≤ s.a.collected w t :=
    C10.paid_le_collected epoch lockEpochs known contracts whitelist ops w t
  have h2 : s.a.accumulated w t + s.a.collected w t = deposited s0 ops w t :=
    deposited_ledger epoch lockEpochs known contracts whitelist ops w t
  have h3 : s.a.paid w t = logged (paidLog s0 ops) w t :=
    paid_log_complete epoch lockEpochs known contracts whitelist ops w t
  refine ⟨h1, by omega, by omega⟩

/-- **collector solvent, at full strength.**  After ANY history, for every non-locked token and
    any horizon `K` beyond the current week: the collector's balance is EXACTLY the sum over the
    weeks `< K` of (deposited for the week − paid for the week) — in particular it covers it. -/
theorem collector_solvent_full (epoch lockEpochs : Nat) (known : List Tok)
    (contracts whitelist : List Nat) (ops : List Op) (t : Tok) (ht : t ≠ lockedTok) (K : Nat) :
    let s0 := init epoch lockEpochs known contracts whitelist
    let s := run s0 ops
    curWeek s < K →
    s.bal t = usum (List.range K) (fun w => deposited s0 ops w t - s.a.paid w t) ∧
    usum (List.range K) (fun w => deposited s0 ops w t - logged (paidLog s0 ops) w t) ≤ s.bal t := by
  intro s0 s hK
  have hc : s.bal t + paidAll s t K = owedAll s t K :=
    C10.collector_conservation epoch lockEpochs known contracts whitelist ops t ht K hK
  have ho : owedAll s t K = usum (List.range K) (fun w => deposited s0 ops w t) :=
    owedAll_eq_deposited epoch lockEpochs known contracts whitelist ops t K
  have hle : ∀ w, s.a.paid w t ≤ deposited s0 ops w t := fun w =>
    Nat.le_trans (paid_le_deposited epoch lockEpochs known contracts whitelist ops w t).1
      (paid_le_deposited epoch lockEpochs known contracts whitelist ops w t).2.1
  have hsum : usum (List.range K) (fun w => deposited s0 ops w t - s.a.paid w t) + paidAll s t K =
      usum (List.range K) (fun w => deposited s0 ops w t) := by
    unfold paidAll
    rw [← usum_add]
    exact usum_congr (fun w _ => by have := hle w; omega)
  have heq : s.bal t = usum (List.range K) (fun w => deposited s0 ops w t - s.a.paid w t) := by
    rw [ho] at hc
    omega
  refine ⟨heq, ?_⟩
  rw [heq]
  refine Nat.le_of_eq (usum_congr (fun w _ => ?_))
  have h3 : s.a.paid w t = logged (paidLog s0 ops) w t :=
    paid_log_complete epoch lockEpochs known contracts whitelist ops w t
  rw [h3]

/-! ### non-vacuity and counter-examples -/

/-- the history of `Props/C10.lean`: two users register in week 1 with energies 7000 and 21000,
    1000 units of token 1 are deposited, a week passes, user 1 claims -/
local notation "exInit" => init 5 1440 [1, 2] [101] [201]
def exOps : List Op :=
  [.setEnergy 1 ⟨7000, 5, 10⟩, .setEnergy 2 ⟨21000, 5, 10⟩, .claim 1 none, .claim 2 none,
   .deposit 101 1 0 1000, .advance 7, .claim 1 none]

/-- the state this history reaches (kernel evaluation) -/
theorem ex_state :
    (run exInit exOps).a.paid 1 1 = 250 ∧
    (run exInit exOps).a.accumulated 1 1 + (run exInit exOps).a.collected 1 1 = 1000 ∧
    (run exInit exOps).bal 1 = 750 ∧
    (run exInit exOps).w.lastGlobalUpdateWeek = 2 ∧ (run exInit exOps).w.totalEnergy 1 = 28000 ∧
    recordedSum (run exInit exOps).w 1 = 27930 ∧
    usum (run exInit exOps).w.users (fun u => C10.claimableEnergy (run exInit exOps).w u 1) = 21000 := by
  decide

/-- non-vacuity of the log theorems: the log of this history holds exactly 250 for week 1 /
    token 1, so it contains a positive entry for that key — produced (`paid_log_entries`) by an
    operation of the history, to which `paid_log_window` and `paid_log_amount` apply -/
example : logged (paidLog exInit exOps) 1 1 = 250 ∧
    ∃ e ∈ paidLog exInit exOps, e.week = 1 ∧ e.tok = 1 ∧ 0 < e.amount := by
  have h0 : (run exInit exOps).a.paid 1 1 = logged (paidLog exInit exOps) 1 1 :=
    paid_log_complete 5 1440 [1, 2] [101] [201] exOps 1 1
  have h : logSum (paidLog exInit exOps) 1 1 = 250 := h0.symm.trans ex_state.1
  exact ⟨h, exists_of_logSum_pos (by rw [h]; decide)⟩

/-- non-vacuity of the ledger theorems: 1000 were deposited for week 1 in token 1, 250 of them
    paid, and the balance is the difference -/
example : deposited exInit exOps 1 1 = 1000 ∧ (run exInit exOps).bal 1 = 1000 - 250 := by
  have h : (run exInit exOps).a.accumulated 1 1 + (run exInit exOps).a.collected 1 1 =
      deposited exInit exOps 1 1 := deposited_ledger 5 1440 [1, 2] [101] [201] exOps 1 1
  exact ⟨h.symm.trans ex_state.2.1, ex_state.2.2.1⟩

/-- non-vacuity of `denominator_at_close`: week 1 was closed with Σ = 7000 + 21000 -/
example : closeSum 1 exInit exOps 0 = 28000 := by
  have h4 : (run exInit exOps).w.lastGlobalUpdateWeek = 2 := ex_state.2.2.2.1
  have h := denominator_at_close 5 1440 [1, 2] [101] [201] exOps 1
  simp only [h4] at h
  exact (h (by decide)).symm.trans ex_state.2.2.2.2.1

/-- **counter-example: against the CURRENT records the denominator is only an upper bound.**
    After user 1's claim in week 2 the frozen total of week 1 is still 28000, but the participants'
    current records decayed to week 1 sum to 27930 (user 1's record was replaced by its week-2
    energy), and the records that can still claim week 1 (user 2 only) sum to 21000: the users
    who make it an inequality are exactly those whose progress has moved past the week. -/
theorem denominator_not_current :
    (run exInit exOps).w.totalEnergy 1 = 28000 ∧
    recordedSum (run exInit exOps).w 1 ≠ (run exInit exOps).w.totalEnergy 1 ∧
    usum (run exInit exOps).w.users (fun u => C10.claimableEnergy (run exInit exOps).w u 1) <
      (run exInit exOps).w.totalEnergy 1 := by
  obtain ⟨_, _, _, _, h5, h7, h8⟩ := ex_state
  refine ⟨h5, ?_, ?_⟩
  · rw [h7, h5]; decide
  · rw [h8, h5]; decide

/-- **counter-example: against the factory's CURRENT energies equality is false** even for the
    running week: a user whose energy changed in the factory (here 7000 → 9000, e.g. by locking
    more tokens) without any collector update is still counted with its old record. -/
theorem denominator_not_factory :
    let s := run (init 5 1440 [1] [101] [])
      [.setEnergy 1 ⟨7000, 5, 10⟩, .claim 1 none, .setEnergy 1 ⟨9000, 5, 12⟩]
    s.w.lastGlobalUpdateWeek = 1 ∧ s.w.totalEnergy 1 = 7000 ∧ s.w.users = [1] ∧
    (Energy.queried (s.energy 1) s.epoch).getEnergyAmount = 9000 := by
  decide

end Mx.C10Once
