/-
  C16 at run level — merge conservation and supply neutrality over ANY history.

  Statement (C16, last sentence): base asset the proxy mints for a pool or farm entry is matched on
  exit by burning the same amount of base asset or, for the part the pool or a penalty kept, of
  locked tokens, so the combined base+locked supply is unchanged by a round trip.
  Props/C16.lean proves this for two fixed two-operation sequences.  Here it is the general
  history invariant:  `minted − burnB − burnL  =  RT`,  where `RT` is the total of the locked
  tokens reserved by the outstanding wrapped tokens (wrapped LP records + wrapped farm records
  entered with locked tokens; this is what is "at work" in pools and farms, one base-asset unit per
  reserved locked token, floor dust of partial exits included).  So once every reserve is used up
  the supply created through the proxy is exactly 0.

  Two callee facts are needed and are NAMED, EXECUTABLE predicates on the recorded answers
  (Lemmas/ProxyDexNetOps.lean), evaluated in the state the operation is executed in:
  * `FactoryMergeOK s op` (`factoryOKb`): the locked token the energy factory returns for a merge
    or an extension is for exactly the sum of the locked amounts `into_part` took out of the merged
    / extended wrapped tokens (plus the new position's amount for an entry with merging);
  * `FarmExact op` (`farmEqb`): a farm mints as many farm tokens as farming tokens entered /
    claimed / merged; locked tokens go to the base-asset farm, wrapped LP tokens to an LP farm.
  `runOKb s ops` says that every operation of the history satisfies both.  They hold on every
  recorded answer of the real contracts we tried (work/px/Check.lean: 11 031 accepted operations,
  1 181 with a factory call, no violation) and on the corpus history below.
  Without them the statement is FALSE in the model (and in reality: a factory that returned fewer
  locked tokens than it was sent would destroy supply) — `factory_fact_needed` below.

  Only property theorems live here; lemmas are in Lemmas/ProxyDexNet{,Ops}.lean, ProxyDexMerge.lean.
-/
import MxModel.Lemmas.ProxyDexMerge

namespace Mx.C16Run
open Mx.ProxyDex

/-! ### (a) merge conservation -/

/-- **Merging wrapped LP tokens conserves everything they record**, for ANY factory answer `t` up
    to the factory's own discrepancy: the wrapped-LP amount in user hands (`C`, each unit a claim on
    one LP token) and the proxy's LP balance are unchanged, the new token records the sum of the
    merged amounts, and the total of reserved locked tokens moves by exactly
    `t.amt − Σ merged locked parts`. -/
theorem merge_lp_accounting {s s' : St} {l : List (Nat × Nat)} {t : LkTok} {o : Out}
    (h : mergeLp s l t = some (s', o)) :
    RT s' + lockedWs s l = RT s + t.amt ∧ C s' = C s ∧ s'.lp = s.lp ∧ FT s' = FT s ∧
    s'.aw = s.aw ++ [(sumX l, t.k, t.amt)] ∧ o.wOut = (s.wl.length, sumX l) ∧ s'.net = s.net := by
  obtain ⟨h1, h2, h3, h4, h5, h6, _, h8⟩ := mergeLp_delta h
  exact ⟨h1, h3, h4, h2, h6, h8, net_of_scal h5⟩

/-- **merge conservation, wrapped LP.**  If the factory's merge returns the sum of the merged
    locked amounts (`FactoryMergeOK`), `mergeWrappedLpTokens` preserves, per underlying: the LP
    tokens recorded (wrapped LP in user hands, proxy LP balance), the locked tokens recorded
    (`RT`; the merged token records exactly `Σ parts`), and mints / burns nothing. -/
theorem merge_lp_conserves {s s' : St} {l : List (Nat × Nat)} {t : LkTok} {o : Out}
    (h : mergeLp s l t = some (s', o)) (hok : FactoryMergeOK s (.mergeLp l t)) :
    RT s' = RT s ∧ C s' = C s ∧ s'.lp = s.lp ∧ s'.net = s.net ∧
    s'.aw = s.aw ++ [(sumX l, t.k, lockedWs s l)] := by
  obtain ⟨h1, h2, h3, _, h5, _, h7⟩ := merge_lp_accounting h
  have hk : t.amt = lockedWs s l := by
    simpa [FactoryMergeOK, factoryOKb] using hok
  exact ⟨by omega, h2, h3, h7, by rw [h5, hk]⟩

/-- **merge conservation, wrapped farm tokens**, for ANY answers of the farm (`mf`) and the factory
    (`t`): reserved farm tokens move by `mf.2 − Σ merged amounts`, reserved locked tokens by
    `t.amt − Σ merged locked parts`; nothing is minted or burned. -/
theorem merge_farm_accounting {s s' : St} {farm : Nat} {l : List (Nat × Nat)} {mf : Nat × Nat}
    {t : LkTok} {rew : Option LkTok} {stray : List LkTok} {o : Out}
    (h : mergeFarm s farm l mf t rew stray = some (s', o)) :
    RT s' + lockedFs s l = RT s + t.amt ∧ FT s' + sumX l = FT s + mf.2 ∧ s'.net = s.net := by
  obtain ⟨h1, h2, h3⟩ := mergeFarm_delta h
  exact ⟨h1, h2, net_of_scal h3⟩

/-- … hence, with exact callees (`FactoryMergeOK`, `FarmExact`), `mergeWrappedFarmTokens`
    preserves the total of farm tokens and of locked tokens recorded in wrapped farm tokens. -/
theorem merge_farm_conserves {s s' : St} {farm : Nat} {l : List (Nat × Nat)} {mf : Nat × Nat}
    {t : LkTok} {rew : Option LkTok} {stray : List LkTok} {o : Out}
    (h : mergeFarm s farm l mf t rew stray = some (s', o))
    (hok : FactoryMergeOK s (.mergeFarm farm l mf t rew stray))
    (hfarm : FarmExact (.mergeFarm farm l mf t rew stray)) :
    RT s' = RT s ∧ FT s' = FT s ∧ s'.net = s.net := by
  obtain ⟨h1, h2, h3⟩ := merge_farm_accounting h
  have hk : t.amt = lockedFs s l := by simpa [FactoryMergeOK, factoryOKb] using hok
  have hf : mf.2 = sumX l := by simpa [FarmExact, farmEqb, paySum_eq] using hfarm
  exact ⟨by omega, by omega, h3⟩

/-- **increase-energy conserves the amounts**: `increaseProxyPairTokenEnergy` /
    `increaseProxyFarmTokenEnergy` with a factory that extends the lock of exactly the amount it was
    sent leave the recorded LP / farm tokens and the reserved locked total unchanged (only the
    lock schedule — the nonce — changes). -/
theorem increase_energy_conserves {s s' : St} {o : Out} {t : LkTok} :
    (∀ w x, incLp s w x t = some (s', o) → FactoryMergeOK s (.incLp w x t) →
        RT s' = RT s ∧ C s' = C s ∧ s'.lp = s.lp ∧ s'.net = s.net ∧
        s'.aw = s.aw ++ [(x, t.k, lockedA s.aw w x)]) ∧
    (∀ f x, incFarm s f x t = some (s', o) → FactoryMergeOK s (.incFarm f x t) →
        RT s' = RT s ∧ FT s' = FT s ∧ s'.net = s.net) := by
  constructor
  · intro w x h hok
    obtain ⟨h1, _, h3, h4, h5, h6, _⟩ := incLp_delta h
    have hk : t.amt = lockedA s.aw w x := by simpa [FactoryMergeOK, factoryOKb] using hok
    exact ⟨by omega, h3, h4, net_of_scal h5, by rw [h6, hk]⟩
  · intro f x h hok
    obtain ⟨h1, h2, h3⟩ := incFarm_delta h
    have hk : t.amt = lockedFA s.aw s.af f x := by simpa [FactoryMergeOK, factoryOKb] using hok
    exact ⟨by omega, h2, net_of_scal h3⟩

/-! ### (c) supply neutrality over any history -/

/-- one transaction preserves the supply ledger `minted = burnB + burnL + RT` (and the attribute
    facts it rests on), for any operation and any arguments, given exact callee answers -/
theorem net_inv_step {s s' : St} {op : Op} {o : Out} (hi : NetInv s)
    (hf : FarmExact op) (hk : FactoryMergeOK s op) (h : step s op = some (s', o)) : NetInv s' :=
  step_net hi (by simp only [calleeOKb, Bool.and_eq_true]; exact ⟨hf, hk⟩) h

/-- **supply_at_work.**  After ANY history from a freshly deployed proxy in which the callees'
    answers were exact (`runOKb`), the base asset + locked tokens created through the proxy and not
    destroyed again (`net = minted − burnB − burnL`) equal the locked tokens reserved by the
    outstanding wrapped tokens: every unit of base asset at work in a pool or farm is matched by one
    locked token the proxy keeps for the position. -/
theorem supply_at_work (now : Nat) (ops : List Op) (hok : runOKb (init now) ops = true) :
    let s := run (init now) ops
    s.net = (RT s : Int) ∧ s.minted = s.burnB + s.burnL + RT s := by
  intro s
  have hi : NetInv s := run_net ops (netinv_init now) hok
  exact ⟨hi.net_eq, hi.sup⟩

/-- **round trips in general: closed positions leave no supply behind.**  After any history with
    exact callees, if every reserve has been used up — every wrapped LP token and every
    locked-token farm position has been redeemed down to a zero reserve — then everything the proxy
    minted has been burned again, as base asset or as locked tokens: `minted = burnB + burnL`. -/
theorem closed_positions_net_zero (now : Nat) (ops : List Op) (hok : runOKb (init now) ops = true)
    (hw : ∀ r ∈ (run (init now) ops).wl, r.rem = 0)
    (hf : ∀ q ∈ (run (init now) ops).wf, q.kind = .locked → q.remP = 0) :
    (run (init now) ops).net = 0 ∧
    (run (init now) ops).minted = (run (init now) ops).burnB + (run (init now) ops).burnL := by
  obtain ⟨h1, h2⟩ := supply_at_work now ops hok
  have hz : RT (run (init now) ops) = 0 := RT_eq_zero hw hf
  rw [hz] at h1 h2
  exact ⟨by simpa using h1, by simpa using h2⟩

/-- the supply created through the proxy never exceeds what is reserved: `net ≥ 0`, and between two
    states of one history it moves exactly with the reserves -/
theorem net_moves_with_reserves (now : Nat) (before after : List Op)
    (hok : runOKb (init now) (before ++ after) = true) (hok1 : runOKb (init now) before = true) :
    (run (init now) (before ++ after)).net - (run (init now) before).net
      = (RT (run (init now) (before ++ after)) : Int) - (RT (run (init now) before) : Int) := by
  rw [(supply_at_work now _ hok).1, (supply_at_work now _ hok1).1]

/-! ### non-vacuity -/

/-- corpus/proxydex/f5_merge_strands_boosted_rewards.ops replayed on the REAL contracts
    (`w_proxydex replay`), with the recorded callee answers (`-> farm=… mk=1:600000000@720 …`),
    transcribed the way `Driver/Proxydex.lean` parses it (farm `L` = 0, header `epoch=10`) -/
def corpusF5 : List Op :=
  [.lock ⟨1, 0, 720⟩, .lock ⟨1, 0, 720⟩,
   .enterL 0 1 300000000 [] (1, 300000000) none none [],
   .enterL 0 1 300000000 [] (2, 300000000) none none [],
   .enterL 0 1 300000000 [] (3, 300000000) none none [],
   .advance 12,
   .claim 0 3 300000000 (4, 300000000) (some ⟨2, 24750000000, 360⟩),
   .advance 19,
   .claim 0 4 300000000 (5, 300000000) (some ⟨2, 110714527502, 360⟩),
   .advance 26,
   .mergeFarm 0 [(1, 300000000), (2, 300000000)] (6, 600000000) ⟨1, 600000000, 720⟩
     (some ⟨2, 70565359876, 360⟩) [],
   .exitFarm 0 6 600000000 600000000 (some ⟨2, 449499999999, 360⟩)]

/-- `FactoryMergeOK` and `FarmExact` are satisfied by the recorded real answer of the factory /
    farm in the corpus history (operation 11, `mergeFarm`, executed in the state after the first
    ten operations), every operation of that history satisfies them, and the ledger is live:
    900000000 at work before the exit, 300000000 after -/
example :
    FactoryMergeOK (run (init 10) (corpusF5.take 10))
      (.mergeFarm 0 [(1, 300000000), (2, 300000000)] (6, 600000000) ⟨1, 600000000, 720⟩
        (some ⟨2, 70565359876, 360⟩) []) ∧
    FarmExact (.mergeFarm 0 [(1, 300000000), (2, 300000000)] (6, 600000000) ⟨1, 600000000, 720⟩
        (some ⟨2, 70565359876, 360⟩) []) ∧
    runOKb (init 10) corpusF5 = true ∧
    RT (run (init 10) (corpusF5.take 11)) = 900000000 ∧
    (run (init 10) corpusF5).net = 300000000 ∧ RT (run (init 10) corpusF5) = 300000000 := by
  decide

/-- a history that exercises every operation with a factory or farm answer (merge of wrapped LP,
    extension of both token kinds, entries with merging of both kinds, claim, merge of wrapped farm
    tokens, exits with and without penalty, removals above and below the recorded amount) -/
def fullCycle : List Op :=
  [.lock ⟨1, 0, 370⟩,
   .addLiq 1 1000 500 [] 500 1000 500 none,
   .addLiq 1 600 300 [] 300 600 300 none,
   .mergeLp [(1, 200), (2, 300)] ⟨2, 1000, 400⟩,
   .incLp 3 100 ⟨3, 200, 500⟩,
   .enterL 0 1 600 [] (1, 600) none none [],
   .enterL 0 1 400 [(1, 300)] (0, 0) none (some ((2, 700), ⟨4, 700, 380⟩)) [],
   .enterW 1 3 200 [] (1, 200) none none [],
   .enterW 1 3 100 [(3, 100)] (0, 0) none (some ((2, 200), ⟨5, 400, 390⟩)) [],
   .incFarm 2 700 ⟨6, 700, 600⟩,
   .claim 0 1 300 (3, 300) none,
   .mergeFarm 0 [(5, 700), (6, 300)] (4, 1000) ⟨7, 1000, 500⟩ none [],
   .exitFarm 0 7 1000 990 none,
   .exitFarm 1 4 200 200 none,
   .exitFarm 1 3 100 99 none,
   .removeLiq 1 300 700 10,
   .removeLiq 3 100 150 10,
   .removeLiq 4 100 250 10,
   .removeLiq 5 200 400 10,
   .removeLiq 6 99 198 10]

/-- non-vacuity of `supply_at_work` / `closed_positions_net_zero`: the hypotheses hold along
    `fullCycle`; in the middle 2600 units are at work; at the end every reserve is 0, 2600 were
    minted, 2538 burned as base asset and 62 as locked tokens (penalties 10 + 2, pool shortfall 50) -/
example :
    runOKb (init 10) fullCycle = true ∧
    RT (run (init 10) (fullCycle.take 12)) = 2600 ∧ (run (init 10) (fullCycle.take 12)).net = 2600 ∧
    (run (init 10) fullCycle).minted = 2600 ∧ (run (init 10) fullCycle).burnB = 2538 ∧
    (run (init 10) fullCycle).burnL = 62 ∧
    (∀ r ∈ (run (init 10) fullCycle).wl, r.rem = 0) ∧
    (∀ q ∈ (run (init 10) fullCycle).wf, q.kind = .locked → q.remP = 0) := by
  decide

/-- the merge theorems are not vacuous: operation 4 of `fullCycle` is a successful `mergeLp` that
    satisfies `FactoryMergeOK` (parts `⌊1000·200/500⌋ = 400` and `600`) -/
example :
    (mergeLp (run (init 10) (fullCycle.take 3)) [(1, 200), (2, 300)] ⟨2, 1000, 400⟩).isSome ∧
    FactoryMergeOK (run (init 10) (fullCycle.take 3)) (.mergeLp [(1, 200), (2, 300)] ⟨2, 1000, 400⟩) ∧
    lockedWs (run (init 10) (fullCycle.take 3)) [(1, 200), (2, 300)] = 1000 := by
  decide

/-- **the factory fact is needed**: with a factory that returns one locked token less than it was
    sent, the same merge goes through in the model (the proxy does not check the amount) and the
    supply ledger breaks — 1600 created, 1599 reserved -/
theorem factory_fact_needed :
    let s := run (init 10) (fullCycle.take 3 ++ [.mergeLp [(1, 200), (2, 300)] ⟨2, 999, 400⟩])
    s.net = 1600 ∧ RT s = 1599 := by
  decide

end Mx.C16Run
