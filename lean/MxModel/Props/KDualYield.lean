/-
  KDualYield — the metastaking model (`Core/DualYield.lean`: `part`) computes what the SOURCE of
  `farm-staking/farm-staking-proxy/src/{dual_yield_token.rs, external_contracts_interactions.rs}` and
  `common/traits/fixed-supply-token` computes.

  `Gen/KDualYield.lean` is regenerated on every run by `bin/gen-kernels` (group `DualYield`):

    * `get_total_supply`, `rule_of_three`, `rule_of_three_non_zero_result`, `into_part`
      of `DualYieldTokenAttributes` (fields `lp_farm_token_amount`, `staking_farm_token_amount`)
    * `safe_price_side`   the tail of `get_lp_tokens_safe_price`: which of the two safe-price amounts
      is the staking token's

  Property C15 (dual-yield tokens are fully backed and unwind to their parts) rests on `into_part`:
  a payment of `x` units releases `x` staking-farm tokens and `⌊lp · x / total⌋` (never 0) LP-farm tokens.
-/
import MxModel.Gen.KDualYield
import MxModel.Core.DualYield
import MxModel.Lemmas.KTactic

namespace Mx.KDualYield
open Mx Mx.Gen Mx.DualYield

/-- the total supply of a dual-yield nonce is its staking-farm token amount -/
theorem get_total_supply_eq (stA : Nat) : KDualYield.get_total_supply stA = some stA := by
  k_defs [KDualYield.get_total_supply]
  try k_solve

/-- source `rule_of_three` for these attributes -/
theorem rule_of_three_eq (x full total : Nat) :
    KDualYield.rule_of_three x full total =
      if x = total then some full else if total = 0 then none else some (full * x / total) := by
  k_defs [KDualYield.rule_of_three, get_total_supply_eq]
  k_solve

/-- … and the variant that refuses a zero result ("Zero amount") -/
theorem rule_of_three_non_zero_result_eq (x full total : Nat) :
    KDualYield.rule_of_three_non_zero_result x full total =
      if x = total then (if full = 0 then none else some full)
      else if total = 0 ∨ full * x / total = 0 then none else some (full * x / total) := by
  k_defs [KDualYield.rule_of_three_non_zero_result, rule_of_three_eq]
  k_solve

/-- source `DualYieldTokenAttributes::into_part(x)` IS the model's `part` on the LP-farm amount, with
    the staking amount `x`: the whole token for the full amount, otherwise `⌊lp · x / total⌋`,
    aborting on a zero total or a zero result.  Result (lp_farm_token_amount, staking_farm_token_amount) -/
theorem into_part_eq (t : Tok) (x : Nat) :
    KDualYield.into_part x t.lpA t.stA = (part t x).map fun p => (p, x) := by
  k_defs [KDualYield.into_part, get_total_supply_eq, rule_of_three_non_zero_result_eq, part]
  k_solve

/-- the LP-farm part never exceeds the LP-farm amount of the nonce (for a payment within the supply) -/
theorem into_part_le (t : Tok) (x p q : Nat) (hx : x ≤ t.stA)
    (h : KDualYield.into_part x t.lpA t.stA = some (p, q)) : p ≤ t.lpA ∧ q = x := by
  rw [into_part_eq] at h
  simp only [part] at h
  split at h
  · simp only [Option.map_some, Option.some.injEq, Prod.mk.injEq] at h
    omega
  · simp only [Option.bind_eq_bind, Option.map_eq_some_iff, Option.bind_eq_some_iff, req_eq_some,
      Option.pure_def, Option.some.injEq, Prod.mk.injEq] at h
    obtain ⟨_, ⟨_, h0, _, _, rfl⟩, rfl, rfl⟩ := h
    refine ⟨?_, rfl⟩
    apply Nat.div_le_of_le_mul
    rw [Nat.mul_comm t.stA t.lpA]
    exact Nat.mul_le_mul_left _ hx

/-- the staking-token side of the pair's safe-price answer: the first amount when the first token
    is the staking token, else the second when that one is, else abort ("Invalid Pair contract called") -/
theorem safe_price_side_eq (a1 t1 a2 t2 st : Nat) :
    KDualYield.safe_price_side a1 t1 a2 t2 st =
      if t1 = st then some a1 else if t2 = st then some a2 else none := by
  k_defs [KDualYield.safe_price_side]
  k_solve

example : KDualYield.into_part 30 10 100 = some (3, 30) := by decide
example : KDualYield.into_part 100 10 100 = some (10, 100) := by decide
example : KDualYield.into_part 5 10 100 = none := by decide
example : KDualYield.into_part 5 10 0 = none := by decide

end Mx.KDualYield
