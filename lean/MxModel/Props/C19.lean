/-
  C19 — Only authorised callers configure or act for others; paused means no fund moves.

  Statement: configuration and admin endpoints succeed only for callers holding the required
  role (owner, admin, pauser, whitelisted contract, router for pairs); acting on behalf of
  another user requires a whitelisted contract caller or the user's explicit, non-blacklisted
  authorisation in the permissions hub, and rewards claimed on behalf go to the position
  owner.  While a pair, farm, staking or energy contract is paused or inactive no user
  operation that moves funds succeeds, and a partially active pair accepts liquidity but no
  swaps.

  Model: Core/Access.lean — the access table `endpoint ↦ (class, guard, required state)`, the
  decision function `allowed`, and the state machines of the permission bit-set, pausable,
  sc-whitelist and permissions hub.  The quantifier of the table theorems IS the finite
  table (every endpoint of every in-scope contract × every role × every state), so they are
  decided by kernel evaluation (`decide +kernel`).  `Gen/Endpoints.lean` is regenerated
  from the compiled contracts' ABI on every run: a new, renamed or re-flagged endpoint
  breaks `inventory_classified` / `only_owner_agrees` / `readonly_agrees`.
  The state-machine theorems hold for every operation history (induction).
  Only property theorems live in this file; helper lemmas are in Lemmas/AccessSM.lean.
-/
import MxModel.Lemmas.AccessSM
import MxModel.Gen.Endpoints

namespace Mx.C19
open Mx.Access

/-- roles that hold some privilege in the deployment of the matrix world -/
def privileged : List Role := [.owner, .admin, .pauser, .router]

-- =====================================================================================
-- the generated inventory against the hand-written table
-- =====================================================================================

set_option maxRecDepth 100000 in
/-- every endpoint the compiled contracts export is classified: by a row of the access table, or — for an
    endpoint the table does not list — by the ABI default (`Access.abiDefault`: read-only ⇒ view,
    `#[only_owner]` ⇒ owner-guarded configuration).  An unlisted endpoint that is mutable and callable by
    anybody is NOT classified and breaks this obligation. -/
theorem inventory_classified :
    ∀ x ∈ Mx.Gen.endpoints, (classify x.1 x.2.1 x.2.2.1 x.2.2.2.1).isSome = true := by decide +kernel

/-- what the ABI default can be: a view open to everybody in every state, or configuration that only the
    contract owner passes — never a fund-moving, on-behalf or contract-only class, never an unrestricted setter -/
theorem abi_default_is_safe (e : String) (ow ro : Bool) (ent : Entry) (h : abiDefault e ow ro = some ent) :
    (ent.cls = Class.view ∧ ro = true) ∨ (ent.cls = Class.config ∧ ent.guard = Guard.scOwner ∧ ow = true) := by
  unfold abiDefault at h
  cases ro <;> cases ow <;> simp_all [vw, cfg] <;> subst h <;> simp

set_option maxRecDepth 100000 in
/-- the ABI's `only_owner` flag and the table agree, in both directions: an endpoint is
    `#[only_owner]` in the compiled contract iff the table guards it by the contract owner -/
theorem only_owner_agrees :
    ∀ x ∈ Mx.Gen.endpoints,
      (x.2.2.1 = true ↔ (classify x.1 x.2.1 x.2.2.1 x.2.2.2.1).map (·.guard) = some Guard.scOwner) := by decide +kernel

set_option maxRecDepth 100000 in
/-- every endpoint the ABI marks read-only is classified as a view, and every endpoint the
    table treats as fund-moving or on-behalf is mutable in the ABI -/
theorem readonly_agrees :
    ∀ x ∈ Mx.Gen.endpoints,
      (x.2.2.2.1 = true → (classify x.1 x.2.1 x.2.2.1 x.2.2.2.1).map (·.cls) = some Class.view) := by decide +kernel

set_option maxRecDepth 100000 in
/-- the table has no second entry for the same endpoint name (lookups are unambiguous) -/
theorem table_names_unique : ∀ c ∈ Contract.all, ((table c).map (·.name)).Nodup := by decide +kernel

-- =====================================================================================
-- admin endpoints need the role
-- =====================================================================================

set_option maxRecDepth 100000 in
/-- configuration / admin endpoints are never open: their guard is the contract owner, the
    router's stored owner, or a non-empty permission mask -/
theorem config_is_guarded :
    ∀ c ∈ Contract.all, ∀ ent ∈ table c, ent.cls = .config → ent.guard.restricted = true := by decide +kernel

set_option maxRecDepth 100000 in
/-- a configuration / admin endpoint succeeds only for a privileged role: never for a plain
    user, a whitelisted contract, or any (authorised, revoked, blacklisted) hub agent —
    in every contract, every state -/
theorem admin_needs_role :
    ∀ c ∈ Contract.all, ∀ ent ∈ table c, ent.cls = .config → ∀ r ∈ Role.all, ∀ s ∈ CState.all,
      allowed c ent.name r s = true → r ∈ privileged := by decide +kernel

/-- … and when the guard is a permission mask, the caller really holds one of its bits in the
    permission storage reached by the deployment history (`deployed c` is computed by running
    the permission state machine, not asserted) -/
theorem perm_guard_sound (c : Contract) (e : String) (r : Role) (s : CState) (ent : Entry) (m : Perm)
    (hl : lookup c e = some ent) (hg : ent.guard = .perm m) (ha : allowed c e r s = true) :
    (((initPerm c).run (deployOps c)).perms r.addr).intersects m = true := by
  simp only [allowed, hl, Bool.and_eq_true] at ha
  have := ha.1
  simp only [hg, guardOk, PermSt.holds, deployed] at this
  exact this

set_option maxRecDepth 100000 in
/-- `#[only_owner]` endpoints succeed for exactly one role: the account owning the contract
    (the router for a pair, `owner` elsewhere) -/
theorem only_owner_single_role :
    ∀ c ∈ Contract.all, ∀ ent ∈ table c, ent.guard = .scOwner → ∀ r ∈ Role.all, ∀ s ∈ CState.all,
      allowed c ent.name r s = true → r = (if c = .pair then Role.router else Role.owner) := by decide +kernel

-- =====================================================================================
-- paused / inactive means no fund moves
-- =====================================================================================

set_option maxRecDepth 100000 in
/-- in a contract with a kill switch, no user operation that moves funds succeeds while the
    contract is Inactive / paused — for any caller -/
theorem paused_blocks_funds :
    ∀ c ∈ Contract.all, pausable c = true → ∀ ent ∈ table c, ent.cls = .userFunds ∨ ent.cls = .onBehalf →
      ∀ r ∈ Role.all, allowed c ent.name r .inactive = false := by decide +kernel

set_option maxRecDepth 100000 in
/-- every fund-moving user endpoint of a pausable contract requires Active, the only
    exception being the pair's two liquidity operations (Active or PartialActive) -/
theorem user_funds_require_active :
    ∀ c ∈ Contract.all, pausable c = true → ∀ ent ∈ table c, ent.cls = .userFunds ∨ ent.cls = .onBehalf →
      ent.st = .active ∨
      (c = .pair ∧ (ent.name = "addLiquidity" ∨ ent.name = "removeLiquidity") ∧ ent.st = .activeOrPartial) := by
  decide +kernel

set_option maxRecDepth 100000 in
/-- a partially active pair accepts liquidity from everybody and swaps from nobody (neither
    user swaps nor the whitelisted no-fee swap) -/
theorem partial_pair_liquidity_only :
    ∀ r ∈ Role.all,
      allowed .pair "addLiquidity" r .partialActive = true ∧
      allowed .pair "removeLiquidity" r .partialActive = true ∧
      allowed .pair "swapTokensFixedInput" r .partialActive = false ∧
      allowed .pair "swapTokensFixedOutput" r .partialActive = false ∧
      allowed .pair "swapNoFeeAndForward" r .partialActive = false := by decide +kernel

set_option maxRecDepth 100000 in
/-- outside the pair, PartialActive is as good as paused for every fund-moving endpoint -/
theorem partial_blocks_funds_elsewhere :
    ∀ c ∈ Contract.all, pausable c = true → c ≠ .pair → ∀ ent ∈ table c,
      ent.cls = .userFunds ∨ ent.cls = .onBehalf →
      ∀ r ∈ Role.all, allowed c ent.name r .partialActive = false := by decide +kernel

set_option maxRecDepth 100000 in
/-- the pair's bootstrap (`addInitialLiquidity`) is the one operation that needs the pair
    NOT to be active, and it is reserved to the initial liquidity adder when one is set -/
theorem bootstrap_only_inactive :
    ∀ r ∈ Role.all, ∀ s ∈ CState.all,
      (allowed .pair "addInitialLiquidity" r s = true → s = .inactive) ∧
      (allowed .pair "addInitialLiquidity@adder" r s = true → s = .inactive ∧ r = .user) := by decide +kernel

-- =====================================================================================
-- acting on behalf of another user
-- =====================================================================================

set_option maxRecDepth 100000 in
/-- an on-behalf endpoint is guarded by the contract whitelist or by the hub (or is disabled),
    needs the contract Active, and succeeds only for the whitelisted contract resp. the agent
    the position owner authorised — never for the owner, an admin, a plain user, a revoked
    agent or a blacklisted agent -/
theorem on_behalf_rules :
    ∀ c ∈ Contract.all, ∀ ent ∈ table c, ent.cls = .onBehalf →
      (ent.guard = .whitelisted ∨ ent.guard = .hubAgent ∨ ent.guard = .nobody) ∧ ent.st = .active ∧
      ∀ r ∈ Role.all, ∀ s ∈ CState.all, allowed c ent.name r s = true →
        s = .active ∧ ((ent.guard = .whitelisted ∧ r = .wsc) ∨ (ent.guard = .hubAgent ∧ r = .agent)) := by
  decide +kernel

set_option maxRecDepth 100000 in
/-- rewards claimed on behalf through the hub go to the position owner, never to the caller -/
theorem on_behalf_rewards_to_owner :
    ∀ c ∈ Contract.all, ∀ ent ∈ table c,
      (ent.name = "claimRewardsOnBehalf" → ent.guard = .hubAgent ∧ ent.payee = .positionOwner) ∧
      ent.payee ≠ .caller := by decide +kernel

set_option maxRecDepth 100000 in
/-- contract-only endpoints succeed for the whitelisted contract and nobody else -/
theorem contract_only_rules :
    ∀ c ∈ Contract.all, ∀ ent ∈ table c, ent.cls = .contractOnly → ent.guard = .whitelisted ∧
      ∀ r ∈ Role.all, ∀ s ∈ CState.all, allowed c ent.name r s = true → r = .wsc := by decide +kernel

/-- the hub authorisations the matrix world ends up with, computed by running the hub state
    machine on the world's history: exactly `agent` is authorised by `user` -/
theorem hub_deployment :
    ∀ r ∈ Role.all, hubDeployed.isWhitelisted Role.user.addr r.addr = (r == .agent) := by decide

-- =====================================================================================
-- state machines: every operation history
-- =====================================================================================

/-- permission bit-set: a successful operation proves its caller held OWNER or is the
    contract owner -/
theorem perm_change_needs_authority {s s' : PermSt} {o : PermOp} (h : s.step o = some s') :
    s.holds o.caller Perm.OWNER = true ∨ o.caller = s.scOwner :=
  PermSt.step_authority h

/-- permission bit-set: whatever callers without the OWNER permission (and other than the
    contract owner) try, in whatever order, nobody's permissions change -/
theorem perm_history_unauthorised_frozen (s : PermSt) (ops : List PermOp)
    (h : ∀ o ∈ ops, s.holds o.caller Perm.OWNER = false ∧ o.caller ≠ s.scOwner) : s.run ops = s :=
  PermSt.run_unauthorised s ops h

/-- permission bit-set: the add/remove endpoints never grant or take the OWNER bit -/
theorem perm_owner_bit_stable {s s' : PermSt} {o : PermOp} (h : s.step o = some s')
    (hno : ∀ c p, o ≠ .updateOwnerOrAdmin c p) (x : Addr) : (s'.perms x).owner = (s.perms x).owner :=
  PermSt.step_owner_bit h hno x

/-- permission bit-set: removal is effective -/
theorem perm_remove_effective {s s' : PermSt} {c a : Addr} :
    (s.step (.removeAdmin c a) = some s' → (s'.perms a).admin = false) ∧
    (s.step (.removePause c a) = some s' → (s'.perms a).pause = false) :=
  ⟨PermSt.removeAdmin_effective, PermSt.removePause_effective⟩

/-- pausable: the kill switch moves only for a caller holding PAUSE (pause / resume) or
    OWNER (active-no-swaps) -/
theorem pause_change_needs_permission {s s' : PauseSt} {o : PauseOp} (h : s.step o = some s')
    (hne : s'.state ≠ s.state) :
    (∃ c, (o = .pause c ∨ o = .resume c) ∧ s.perm.holds c Perm.PAUSE = true) ∨
    (∃ c, o = .setActiveNoSwaps c ∧ s.perm.holds c Perm.OWNER = true) :=
  PauseSt.step_state h hne

/-- whitelist: only the contract owner changes it, removal is effective, no duplicates arise -/
theorem whitelist_step {s s' : WlSt} {o : WlOp} (h : s.step o = some s') :
    (∃ a, o = .add s.scOwner a ∨ o = .remove s.scOwner a) ∧ (s.members.Nodup → s'.members.Nodup) :=
  ⟨(WlSt.step_owner h).1, WlSt.step_nodup h⟩

/-- whitelist, every history: a member was a member at the start or was added by the owner -/
theorem whitelist_history (s : WlSt) (ops : List WlOp) (a : Addr) (h : a ∈ (s.run ops).members) :
    a ∈ s.members ∨ WlOp.add s.scOwner a ∈ ops :=
  WlSt.run_mem s ops a h

/-- hub: a blacklisted address is authorised for nobody, whoever whitelisted it -/
theorem hub_blacklisted_never (s : HubSt) (u a : Addr) (h : a ∈ s.bl) : s.isWhitelisted u a = false := by
  simp [HubSt.isWhitelisted, h]

/-- hub: revoking and blacklisting take effect immediately -/
theorem hub_revoke_blacklist_effective {s s' : HubSt} {u c a : Addr} :
    (s.step (.removeWhitelist u a) = some s' → s'.isWhitelisted u a = false) ∧
    (s.step (.blacklist c a) = some s' → ∀ v, s'.isWhitelisted v a = false) :=
  ⟨HubSt.revoke_effective, fun h v => HubSt.blacklist_effective h v⟩

/-- hub, every history from the empty hub: `a` is authorised to act for `u` only if `u`
    himself whitelisted `a` at some point; and whoever is blacklisted was blacklisted by the
    hub owner -/
theorem hub_history (owner : Addr) (ops : List HubOp) (u a : Addr) :
    let s := ({ scOwner := owner, wl := fun _ => [], bl := [] } : HubSt).run ops
    (s.isWhitelisted u a = true → HubOp.whitelist u a ∈ ops) ∧
    (a ∈ s.bl → HubOp.blacklist owner a ∈ ops) := by
  intro s
  constructor
  · intro h
    simp only [HubSt.isWhitelisted, Bool.and_eq_true, decide_eq_true_eq] at h
    rcases HubSt.run_wl _ ops u a h.2 with h1 | h1
    · cases h1
    · exact h1
  · intro h
    rcases HubSt.run_bl _ ops a h with h1 | h1
    · cases h1
    · exact h1

/-- hub: nobody but `u` changes `u`'s whitelist; only the hub owner changes the blacklist -/
theorem hub_step_authority {s s' : HubSt} {o : HubOp} (h : s.step o = some s') :
    (∀ u, o.caller ≠ u → s'.wl u = s.wl u) ∧ (s'.bl ≠ s.bl → o.caller = s.scOwner) :=
  ⟨fun u hu => HubSt.step_wl_other h u hu, HubSt.step_bl h⟩

-- =====================================================================================
-- non-vacuity: the hypotheses above are met by reachable cells
-- =====================================================================================

example : allowed .farm "claimRewardsOnBehalf" .agent .active = true := by decide
example : allowed .farm "claimRewardsOnBehalf" .revoked .active = false := by decide
example : allowed .farm "claimRewardsOnBehalf" .blacklisted .active = false := by decide
example : allowed .staking "mergeFarmTokens" .user .active = true ∧ allowed .staking "mergeFarmTokens" .user .inactive = false := by decide
example : allowed .pair "setFeePercents" .admin .inactive = true ∧ allowed .pair "setFeePercents" .user .inactive = false := by decide
example : allowed .pair "updateOwnerOrAdmin" .router .active = true ∧ allowed .pair "updateOwnerOrAdmin" .owner .active = false := by decide
example : allowed .energy "lockVirtual" .wsc .active = true ∧ allowed .energy "lockVirtual" .owner .active = false := by decide
example : (lookup .farm "noSuchEndpoint").isSome = false := by decide
example : ∃ s : HubSt, s.isWhitelisted 5 6 = true := ⟨hubDeployed, by decide⟩
example : ((deployed .pair).perms Role.pauser.addr) = Perm.PAUSE := by decide

end Mx.C19
