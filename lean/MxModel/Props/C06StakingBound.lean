/-
  C06 (farm-staking side) — the emission bound on base rewards, at full strength.

  Statement (properties.jsonl C06, last sentence / DESIGN.md `total_base_bound`): base rewards are
  pro rata and never retroactive, hence over any history the base rewards paid out (or compounded)
  never exceed the base share of what was emitted — and what the outstanding positions can still
  claim fits into the remainder.

  Model: Core/Staking.lean.  Ledgers: `paidBase` = Σ base rewards paid or compounded;
  `baseBudget` = Σ over all settlements of `emission − boosted cut`; index `rps`, entry index of a
  position `attrs.rps`, division-safety constant `dsc`.

  The theorem behind everything is the potential-function invariant
      Σ_n outstanding(n)·(rps − entryRps(n)) + dsc·paidBase ≤ dsc·baseBudget
  (`potential_bound`; n ranges over the position nonces, outstanding(n) = units of nonce n held by
  the distinct accounts of the world — by C07 `supply_eq_sum` these are all position units).
  It is proved for EVERY reachable state: any deployment parameters (also `dsc = 0`), any account
  list, any history.  `total_base_bound` is exactly `Mx.C06Staking.total_base_bound_full`.

  Only property theorems live here (helpers: Lemmas/StakingPos.lean, StakingTrans.lean,
  StakingPot.lean).
-/
import MxModel.Lemmas.StakingPot
import MxModel.Props.C06Staking

namespace Mx.C06StakingBound
open Mx.Staking

/-- one successful transaction keeps the potential-function bound (in a state that satisfies the
    position-token invariant of C07) -/
theorem potential_step {s s' : St} {op : Op} {o : Out} (hI : PosInv s) (hP : PotInv s)
    (h : step s op = some (s', o)) : PotInv s' :=
  step_potInv hI hP h

/-- the potential-function bound holds in every reachable state -/
theorem pot_inv_reachable (epoch block dsc maxApr minUnbond perBlock : Nat) (accts wl : List Nat)
    (ops : List Op) : PotInv (run (init epoch block dsc maxApr minUnbond perBlock accts wl) ops) :=
  run_potInv ops (posInv_init epoch block dsc maxApr minUnbond perBlock accts wl)
    (potInv_init epoch block dsc maxApr minUnbond perBlock accts wl)

/-- **potential-function bound.**  In every reachable state
    `Σ_n outstanding(n)·(rps − entryRps(n)) + dsc·paidBase ≤ dsc·baseBudget`: what was paid as
    base rewards plus the un-rounded entitlement of everything still outstanding never exceeds
    the base share of the emission (times the division-safety constant). -/
theorem potential_bound (epoch block dsc maxApr minUnbond perBlock : Nat) (accts wl : List Nat)
    (ops : List Op) :
    let s := run (init epoch block dsc maxApr minUnbond perBlock accts wl) ops
    ((List.range (s.nonce + 1)).map fun n =>
        match s.md n with
        | some (.pos a) => (s.accts.dedup.map fun u => s.hold u n).sum * (s.rps - a.rps)
        | _ => 0).sum
      + s.dsc * s.paidBase ≤ s.dsc * s.baseBudget :=
  (pot_inv_reachable epoch block dsc maxApr minUnbond perBlock accts wl ops).explicit

/-- **total base bound** (the full statement `total_base_bound_full` of Props/C06Staking.lean):
    with a non-zero division-safety constant, after any history the base rewards paid out or
    compounded never exceed the base share of the emission -/
theorem total_base_bound : Mx.C06Staking.total_base_bound_full := by
  intro epoch block dsc maxApr minUnbond perBlock accts wl ops hd
  have h := pot_inv_reachable epoch block dsc maxApr minUnbond perBlock accts wl ops
  exact h.paid_le (by rw [run_dsc]; exact hd)

/-- **claimable base rewards are covered by the unspent base budget**: the base rewards all
    outstanding positions could claim right now — `⌊outstanding(n)·(rps − entryRps(n))/dsc⌋` per
    position nonce, the largest the floors can add up to — plus what was already paid fit into the
    base share of the emission -/
theorem claimable_base_bound (epoch block dsc maxApr minUnbond perBlock : Nat) (accts wl : List Nat)
    (ops : List Op) (hd : 0 < dsc) :
    let s := run (init epoch block dsc maxApr minUnbond perBlock accts wl) ops
    ((List.range (s.nonce + 1)).map fun n =>
        match s.md n with
        | some (.pos a) => (s.accts.dedup.map fun u => s.hold u n).sum * (s.rps - a.rps) / s.dsc
        | _ => 0).sum
      ≤ s.baseBudget - s.paidBase ∧ s.paidBase ≤ s.baseBudget :=
  (pot_inv_reachable epoch block dsc maxApr minUnbond perBlock accts wl ops).claimable_explicit
    (by show 0 < (run _ ops).dsc; rw [run_dsc]; exact hd)

/-- the same with every account claiming each of its holdings separately (the sum the harness
    oracle `reserve_covers` / `total_base_bound` computes): separate claims only lose to the floor -/
theorem claimable_holdings_bound (epoch block dsc maxApr minUnbond perBlock : Nat) (accts wl : List Nat)
    (ops : List Op) (hd : 0 < dsc) :
    let s := run (init epoch block dsc maxApr minUnbond perBlock accts wl) ops
    ((List.range (s.nonce + 1)).map fun n =>
        match s.md n with
        | some (.pos a) => (s.accts.dedup.map fun u => s.hold u n * (s.rps - a.rps) / s.dsc).sum
        | _ => 0).sum
      ≤ s.baseBudget - s.paidBase :=
  (pot_inv_reachable epoch block dsc maxApr minUnbond perBlock accts wl ops).holdings_explicit
    (by show 0 < (run _ ops).dsc; rw [run_dsc]; exact hd)

/-- non-vacuity: two users, a rate change; user 1 has claimed 80000, user 2's position can still
    claim 30000, the base budget is 110000 — the bound is tight here -/
example :
    let s := run (init 5 10 1000000000000 1000000 2 5000 [1, 2, 101] [101])
      [.topUp 1000000, .stake 1 none 1000000000000 [], .advance 10 0, .stake 2 none 1000000000000 [],
       .advance 10 0, .setPerBlock 1000, .advance 10 0, .claim 1 none (1, 1000000000000)]
    s.rps = 80000 ∧ s.paidBase = 80000 ∧ s.baseBudget = 110000 ∧
    s.hold 2 2 * (s.rps - 50000) / s.dsc = 30000 ∧ s.hold 1 3 = 1000000000000 ∧
    (s.md 2).map (fun m => match m with | .pos a => a.rps | _ => 0) = some 50000 ∧
    (s.md 3).map (fun m => match m with | .pos a => a.rps | _ => 0) = some 80000 := by
  decide

end Mx.C06StakingBound
