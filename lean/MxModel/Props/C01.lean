/-
  C01 — Pair pool is always fully backed; LP supply equals circulating LP tokens.

  Statement: after every transaction on a pair, the pair's real balance of each pool token is
  at least the reserve it reports, the LP supply it reports equals the LP tokens in
  existence, and once liquidity exists both reserves stay strictly positive.

  Model: Core/Pair.lean (`bal1/bal2` = real balances, `lpCirc` = minted − burned LP).
  The operations quantified over include the output-locking setters, the epoch clock and swaps
  whose output is locked through simple-lock (`Op.lock`, `Op.epoch`, `Out.locked`).
  Only property theorems live in this file; helper lemmas are in Lemmas/Pair*.lean.
-/
import MxModel.Lemmas.PairInv

namespace Mx.C01
open Mx.Pair

/-- one transaction preserves the invariant (any operation, any arguments, any configuration) -/
theorem inv_step {s s' : St} {op : Op} {o : Out} (hi : Inv s) (h : step s op = some (s', o)) :
    Inv s' :=
  step_inv hi h

/-- every state reachable from a freshly deployed pair by any history satisfies the invariant -/
theorem inv_run (total special : Nat) (adder : Option Nat) (cap : Nat) (ops : List Op) :
    Inv (run (init total special adder cap) ops) :=
  run_inv ops (inv_init total special adder cap)

/-- the headline, spelled out: balances cover reserves and the reported LP supply is the
    circulating LP, after any history whatsoever -/
theorem backed_and_supply_exact (total special : Nat) (adder : Option Nat) (cap : Nat)
    (ops : List Op) :
    let s := run (init total special adder cap) ops
    s.r1 ≤ s.bal1 ∧ s.r2 ≤ s.bal2 ∧ s.S = s.lpCirc := by
  have h := inv_run total special adder cap ops
  exact ⟨h.back1, h.back2, h.supply⟩

/-- once liquidity exists (after some prefix of the history) the LP supply and both
    reserves are strictly positive after every later transaction -/
theorem positive_forever (total special : Nat) (adder : Option Nat) (cap : Nat)
    (before after : List Op)
    (h : 0 < (run (init total special adder cap) before).S) :
    let s := run (init total special adder cap) (before ++ after)
    0 < s.S ∧ 0 < s.r1 ∧ 0 < s.r2 := by
  intro s
  have hi := inv_run total special adder cap before
  have hS : 0 < s.S := by
    show 0 < (run _ (before ++ after)).S
    rw [run_append]
    exact run_S_pos after hi h
  have hi' := inv_run total special adder cap (before ++ after)
  have := hi'.pos hS
  exact ⟨hS, this.1, this.2.1⟩

/-- a failed transaction leaves the state untouched (atomicity as modelled) -/
theorem failed_tx_no_effect (s : St) (op : Op) (h : step s op = none) : run s [op] = s := by
  simp [run, h]

/-- non-vacuity: a concrete history reaches a state with liquidity, a routed fee, a
    collector cut and swap outputs locked through simple-lock, on which the invariant's
    premises are all live -/
example :
    let s := run (init 300 50 none 8)
      [.cfg (.setState .active), .addLiq 1000000 2000000 1 1, .cfg (.addDest .first),
       .cfg (.addDest .second), .cfg (.setCollector 50000), .advance 3,
       .lock true (.setSc .simpleLock), .lock true (.setDeadline 2), .lock true (.setUnlock 7),
       .swapIn .ab 100000 1, .epoch 2, .swapOut .ba 500000 1000, .removeLiq 5000 1 1]
    0 < s.S ∧ s.r1 < s.bal1 ∧ 0 < s.coll1 ∧ 0 < s.burn1 ∧ 0 < s.burn2 ∧ 0 < s.slk2 ∧ s.slk1 = 0 := by
  decide

end Mx.C01
