/-
  C06 (audit gap 14) — the base-reward budget in CLOSED FORM, as a function of the history.

  `Props/C06.lean` bounds the base rewards paid by the ghost counter `baseBudget`.  Here the counter is
  eliminated: it is recomputed from the history's admin operations, advances and settlement points
  alone (Lemmas/FarmBudget.lean), and bounded by the emission of the intervals of constant
  configuration.

  Vocabulary (all pure functions, none reads `baseBudget`):
  * `cfgOf s = (perBlock, produce, pct, lastBlock, block)`; `Cfg.next c op` = effect of a successful `op`;
  * `settles op` = the operation calls `generate` (enter, enterOnBehalf, claim, claimOnBehalf, compound, exit,
    claimBoosted, setPerBlock, endProduce, setPct); merge, transfer, startProduce, setFactors, collect, pause, …
    and `advance` do not;
  * `sliceBase pb pr pct d = m − ⌊m·pct/10000⌋` with `m = pb·d` while producing, else `0`;
  * `succOps s ops` = the operations of the history that succeeded (failed ones change nothing);
  * `budgetOf s ops = Σ over the settling operations of sliceBase (configuration met there)`;
  * `(cfgOf s).intervals start (succOps s ops)` = the intervals between consecutive configuration
    changes (setPerBlock / setPct / endProduce / startProduce), each with the rate, production flag and
    percentage in force and the number of blocks elapsed in it; `totalEmission` = Σ `perBlock_i·blocks_i`
    over the producing intervals, `totalEmissionS` = Σ `perBlock_i·blocks_i·(10000 − pct_i)`.

  What is and is not an equality.  The boosted cut is floored PER SETTLEMENT, so `baseBudget` is an
  exact function of the settlement points (`base_budget_is_history_function`) but NOT the one-shot
  expression `Σ_i (M_i − ⌊M_i·pct_i/10000⌋)` over the intervals (`interval_one_shot_not_exact`); against
  the intervals it is pinned down up to less than one unit per settlement
  (`base_budget_interval_bounds` weighted, `interval_one_shot_partial` in the audit's literal form).  Blocks elapsed while production is off contribute 0; blocks not
  yet settled at the end of the history are the pending emission `minted s`, which is in the
  intervals' emission but not in `baseBudget`.
-/
import MxModel.Lemmas.FarmBudget
import MxModel.Props.C06

namespace Mx.C06Closed
open Mx.Farm

/-- **base_budget_step.**  Every successful operation, for ALL arguments: if it is one of the settling
    operations it adds exactly `m − ⌊m·pct/10000⌋` to the base budget, where
    `m = perBlock·(block − lastBlock)` while producing and `0` otherwise — all under the configuration in
    force BEFORE the operation; every other operation (merge, transfer, startProduce, setFactors, advance, …)
    adds nothing.  The configuration itself moves by the pure function `Cfg.next`. -/
theorem base_budget_step {s s' : St} {op : Op} {o : Out} (h : step s op = some (s', o)) :
    s'.baseBudget = s.baseBudget +
      (if settles op then sliceBase s.perBlock s.produce s.pct (s.block - s.lastBlock) else 0) ∧
    cfgOf s' = (cfgOf s).next op :=
  ⟨(step_budget h).2.2, (step_budget h).1⟩

/-- a failed operation changes nothing, so a history and its successful operations reach the same state -/
theorem failed_ops_irrelevant (s : St) (ops : List Op) : run s (succOps s ops) = run s ops :=
  run_succOps ops s

/-- **base_budget_is_history_function (any start state).**  Along every history the base budget grows
    by `budgetOf s ops`, a function of the start configuration and the successful operations only, and
    the configuration reached is the pure trace `Cfg.run`. -/
theorem base_budget_run (s : St) (ops : List Op) :
    (run s ops).baseBudget = s.baseBudget + budgetOf s ops ∧
    cfgOf (run s ops) = (cfgOf s).run (succOps s ops) :=
  ⟨(run_budget ops s).2.2, (run_budget ops s).1⟩

/-- **base_budget_is_history_function.**  In every state reachable from `init` the ghost counter
    `baseBudget` EQUALS the closed expression computed from the history: Σ over the settlement points of
    `perBlock·Δblocks − ⌊perBlock·Δblocks·pct/10000⌋` (0 while production is off) under the configuration
    met at that point, starting from `(perBlock, produce, pct, lastBlock, block) = (pb, produce, 0, 0, 0)`. -/
theorem base_budget_is_history_function (kind : Kind) (same : Bool) (dsc pb : Nat) (produce : Bool)
    (users : List Nat) (e0 : Nat) (ops : List Op) :
    (run (init kind same dsc pb produce users e0) ops).baseBudget
      = (Cfg.mk pb produce 0 0 0).budget (succOps (init kind same dsc pb produce users e0) ops) := by
  have h := (run_budget ops (init kind same dsc pb produce users e0)).2.2
  rw [h]
  show 0 + _ = _
  rw [Nat.zero_add]
  rfl

/-- **total_base_bound_closed.**  Over ANY history the base rewards paid never exceed the closed-form
    budget of the history (no ghost counter on the right-hand side). -/
theorem total_base_bound_closed (kind : Kind) (same : Bool) (dsc pb : Nat) (produce : Bool)
    (users : List Nat) (e0 : Nat) (hnd : users.Nodup) (hd : dsc ≠ 0) (ops : List Op) :
    (run (init kind same dsc pb produce users e0) ops).paidBase
      ≤ budgetOf (init kind same dsc pb produce users e0) ops := by
  have h1 := C06.total_base_bound kind same dsc pb produce users e0 hnd hd ops
  have h2 := base_budget_is_history_function kind same dsc pb produce users e0 ops
  rw [h2] at h1
  exact h1

/-- … and even together with everything still claimable -/
theorem total_base_bound_closed_with_claimable (kind : Kind) (same : Bool) (dsc pb : Nat) (produce : Bool)
    (users : List Nat) (e0 : Nat) (hnd : users.Nodup) (hd : dsc ≠ 0) (ops : List Op) :
    let s := run (init kind same dsc pb produce users e0) ops
    ((nonceList s).map fun n => baseReward s.dsc s.rps (heldBy s n) (rpsOf s n)).sum + s.paidBase
      ≤ budgetOf (init kind same dsc pb produce users e0) ops := by
  intro s
  have h1 := C06.total_base_bound_with_claimable kind same dsc pb produce users e0 hnd hd ops
  have h2 := base_budget_is_history_function kind same dsc pb produce users e0 ops
  simp only at h1
  rw [h2] at h1
  exact h1

/-! ### the intervals of constant configuration -/

/-- the intervals of constant configuration of a history from `init` -/
def intervalsOf (s : St) (ops : List Op) : List Ival := (cfgOf s).intervals s.block (succOps s ops)

theorem init_cfg (kind : Kind) (same : Bool) (dsc pb : Nat) (produce : Bool) (users : List Nat) (e0 : Nat) :
    cfgOf (init kind same dsc pb produce users e0) = ⟨pb, produce, 0, 0, 0⟩ := rfl

/-- **emission_closed_form.**  For every history from `init`: the emission settled so far (Σ over the
    settlement points of `perBlock·Δblocks`) plus the emission still pending at the end (`minted`, the
    blocks since the last settlement) equals Σ over the intervals of constant configuration of
    `perBlock_i · blocks_i`, counting only the intervals in which production was on. -/
theorem emission_closed_form (kind : Kind) (same : Bool) (dsc pb : Nat) (produce : Bool)
    (users : List Nat) (e0 : Nat) (ops : List Op) :
    let s0 := init kind same dsc pb produce users e0
    (cfgOf s0).mintSum (succOps s0 ops) + minted (run s0 ops) = totalEmission (intervalsOf s0 ops) := by
  intro s0
  obtain ⟨r1, r2, _⟩ := run_budget ops s0
  have hw : (cfgOf s0).WF := ⟨Nat.le_refl _, Nat.zero_le _⟩
  obtain ⟨_, t2, _⟩ := Cfg.mint_telescope _ _ hw r2
  obtain ⟨i1, _⟩ := Cfg.intervals_emission (succOps s0 ops) (cfgOf s0) s0.block (Nat.le_refl _) r2
  rw [minted_cfg, r1, t2]
  unfold intervalsOf
  rw [i1]
  show sliceMint pb produce (0 - 0) + _ = sliceMint pb produce (0 - 0) + _
  rfl

/-- **generated_closed_form.**  The emission counter `generated` (for a minting farm: the reward tokens
    actually minted) is exactly the closed form: in every state reachable from `init`,
    `generated + pending emission = Σ_i perBlock_i · blocks_i` over the producing intervals — so the
    emission bound of `base_budget_le_emission` is attained, not merely an upper estimate — and the base
    budget never exceeds what was emitted. -/
theorem generated_closed_form (kind : Kind) (same : Bool) (dsc pb : Nat) (produce : Bool)
    (users : List Nat) (e0 : Nat) (ops : List Op) :
    let s0 := init kind same dsc pb produce users e0
    (run s0 ops).generated + minted (run s0 ops) = totalEmission (intervalsOf s0 ops) ∧
    (run s0 ops).baseBudget ≤ (run s0 ops).generated := by
  intro s0
  have h := run_generated ops s0
  have h1 : (cfgOf s0).mintSum (succOps s0 ops) + minted (run s0 ops)
      = totalEmission (intervalsOf s0 ops) := emission_closed_form kind same dsc pb produce users e0 ops
  have h2 : (run s0 ops).baseBudget = (cfgOf s0).budget (succOps s0 ops) :=
    base_budget_is_history_function kind same dsc pb produce users e0 ops
  have h3 := Cfg.budget_le_mintSum (succOps s0 ops) (cfgOf s0)
  have hg : s0.generated = 0 := rfl
  exact ⟨by omega, by omega⟩

/-- **base_budget_le_emission.**  For every history from `init`: the base budget plus the emission
    still pending is at most the total emission of the producing intervals
    `Σ_i perBlock_i · blocks_i` — blocks elapsed while production is off contribute nothing. -/
theorem base_budget_le_emission (kind : Kind) (same : Bool) (dsc pb : Nat) (produce : Bool)
    (users : List Nat) (e0 : Nat) (ops : List Op) :
    let s0 := init kind same dsc pb produce users e0
    (run s0 ops).baseBudget + minted (run s0 ops) ≤ totalEmission (intervalsOf s0 ops) := by
  intro s0
  have h1 : (cfgOf s0).mintSum (succOps s0 ops) + minted (run s0 ops)
      = totalEmission (intervalsOf s0 ops) := emission_closed_form kind same dsc pb produce users e0 ops
  have h2 : (run s0 ops).baseBudget = (cfgOf s0).budget (succOps s0 ops) :=
    base_budget_is_history_function kind same dsc pb produce users e0 ops
  have h3 := Cfg.budget_le_mintSum (succOps s0 ops) (cfgOf s0)
  omega

/-- **base_budget_interval_bounds.**  For every history from `init`, with
    `E = Σ_i perBlock_i · blocks_i · (10000 − pct_i)` over the producing intervals, `P` the pending emission
    and `k` the number of settling operations:
    `E ≤ 10000·baseBudget + P·(10000 − pct) ≤ E + 9999·k` — the budget is the intervals' base share up to
    the per-settlement floors (less than one unit each). -/
theorem base_budget_interval_bounds (kind : Kind) (same : Bool) (dsc pb : Nat) (produce : Bool)
    (users : List Nat) (e0 : Nat) (ops : List Op) :
    let s0 := init kind same dsc pb produce users e0
    let s := run s0 ops
    totalEmissionS (intervalsOf s0 ops) ≤ 10000 * s.baseBudget + minted s * (10000 - s.pct) ∧
    10000 * s.baseBudget + minted s * (10000 - s.pct)
      ≤ totalEmissionS (intervalsOf s0 ops) + 9999 * nSettle (succOps s0 ops) := by
  intro s0 s
  obtain ⟨r1, r2, _⟩ := run_budget ops s0
  have hw : (cfgOf s0).WF := ⟨Nat.le_refl _, Nat.zero_le _⟩
  obtain ⟨_, _, t3⟩ := Cfg.mint_telescope _ _ hw r2
  obtain ⟨_, i2⟩ := Cfg.intervals_emission (succOps s0 ops) (cfgOf s0) s0.block (Nat.le_refl _) r2
  obtain ⟨b1, b2⟩ := Cfg.budget_scaled _ _ hw r2
  have h2 : s.baseBudget = (cfgOf s0).budget (succOps s0 ops) :=
    base_budget_is_history_function kind same dsc pb produce users e0 ops
  have hp : minted s * (10000 - s.pct)
      = ((cfgOf s0).run (succOps s0 ops)).mint * (10000 - ((cfgOf s0).run (succOps s0 ops)).pct) := by
    rw [minted_cfg, ← r1]; rfl
  have i2' : totalEmissionS (intervalsOf s0 ops)
      = sliceMint pb produce (0 - 0) * (10000 - 0) + (cfgOf s0).emitS (succOps s0 ops) := i2
  have t3' : (cfgOf s0).mintSumS (succOps s0 ops) +
      ((cfgOf s0).run (succOps s0 ops)).mint * (10000 - ((cfgOf s0).run (succOps s0 ops)).pct)
      = sliceMint pb produce (0 - 0) * (10000 - 0) + (cfgOf s0).emitS (succOps s0 ops) := t3
  rw [h2, hp, i2']
  generalize ((cfgOf s0).run (succOps s0 ops)).mint * (10000 - ((cfgOf s0).run (succOps s0 ops)).pct) = X at *
  generalize sliceMint pb produce (0 - 0) * (10000 - 0) = Y at *
  omega

/-- **paid_base_le_emission.**  The headline: over any history, the base rewards paid (even together
    with the emission still pending) are bounded by the total emission of the producing intervals, and —
    sharper — `10000·paidBase ≤ Σ_i perBlock_i·blocks_i·(10000 − pct_i) + 9999·k`. -/
theorem paid_base_le_emission (kind : Kind) (same : Bool) (dsc pb : Nat) (produce : Bool)
    (users : List Nat) (e0 : Nat) (hnd : users.Nodup) (hd : dsc ≠ 0) (ops : List Op) :
    let s0 := init kind same dsc pb produce users e0
    let s := run s0 ops
    s.paidBase + minted s ≤ totalEmission (intervalsOf s0 ops) ∧
    10000 * s.paidBase + minted s * (10000 - s.pct)
      ≤ totalEmissionS (intervalsOf s0 ops) + 9999 * nSettle (succOps s0 ops) := by
  intro s0 s
  have h0 : s.paidBase ≤ s.baseBudget := C06.total_base_bound kind same dsc pb produce users e0 hnd hd ops
  have h1 : s.baseBudget + minted s ≤ totalEmission (intervalsOf s0 ops) :=
    base_budget_le_emission kind same dsc pb produce users e0 ops
  have h2' : 10000 * s.baseBudget + minted s * (10000 - s.pct)
      ≤ totalEmissionS (intervalsOf s0 ops) + 9999 * nSettle (succOps s0 ops) :=
    (base_budget_interval_bounds kind same dsc pb produce users e0 ops).2
  refine ⟨by omega, ?_⟩
  generalize minted s * (10000 - s.pct) = X at *
  omega

/-! ### the audit's literal interval formula: exact up to the per-settlement floors -/

/-- **interval_one_shot_partial.**  For every history from `init`, with
    `F = Σ_i (perBlock_i·blocks_i − ⌊perBlock_i·blocks_i·pct_i/10000⌋)` over the intervals of constant
    configuration (producing intervals only; `Ival.baseOneShot`), `k` the number of settling operations and
    `p = m − ⌊m·pct/10000⌋` the base share of the emission `m` still pending at the end:
    `F ≤ baseBudget + p ≤ F + k + 1`.
    So the interval formula is a LOWER bound of the budget (once the pending blocks are settled), and the
    budget exceeds it by less than one unit per settlement.  What is missing for equality is not a proof:
    equality is false (`interval_one_shot_not_exact`). -/
theorem interval_one_shot_partial (kind : Kind) (same : Bool) (dsc pb : Nat) (produce : Bool)
    (users : List Nat) (e0 : Nat) (ops : List Op) :
    let s0 := init kind same dsc pb produce users e0
    let s := run s0 ops
    totalBaseOneShot (intervalsOf s0 ops)
      ≤ s.baseBudget + sliceBase s.perBlock s.produce s.pct (s.block - s.lastBlock) ∧
    s.baseBudget + sliceBase s.perBlock s.produce s.pct (s.block - s.lastBlock)
      ≤ totalBaseOneShot (intervalsOf s0 ops) + nSettle (succOps s0 ops) + 1 := by
  intro s0 s
  obtain ⟨r1, r2, _⟩ := run_budget ops s0
  have hw : (cfgOf s0).WF := ⟨Nat.le_refl _, Nat.zero_le _⟩
  have h2 : s.baseBudget = (cfgOf s0).budget (succOps s0 ops) :=
    base_budget_is_history_function kind same dsc pb produce users e0 ops
  have hz : sliceBase (cfgOf s0).perBlock (cfgOf s0).produce (cfgOf s0).pct ((cfgOf s0).lastBlock - s0.block) = 0 :=
    sliceBase_zero _ _ _
  obtain ⟨o1, o2⟩ := Cfg.intervals_oneShot (succOps s0 ops) (cfgOf s0) s0.block 0 0 hw r2 (Nat.le_refl _)
    (by rw [hz]) (by rw [hz])
  have hp : sliceBase s.perBlock s.produce s.pct (s.block - s.lastBlock)
      = ((cfgOf s0).run (succOps s0 ops)).base := by rw [← r1]; rfl
  rw [h2, hp]
  unfold intervalsOf
  omega

/-- **paid_base_le_interval_formula.**  The audit's conclusion: over any history the base rewards paid
    are at most `Σ_i (perBlock_i·blocks_i − ⌊perBlock_i·blocks_i·pct_i/10000⌋)` over the intervals of
    constant configuration, plus the rounding slack of one unit per settlement. -/
theorem paid_base_le_interval_formula (kind : Kind) (same : Bool) (dsc pb : Nat) (produce : Bool)
    (users : List Nat) (e0 : Nat) (hnd : users.Nodup) (hd : dsc ≠ 0) (ops : List Op) :
    let s0 := init kind same dsc pb produce users e0
    (run s0 ops).paidBase ≤ totalBaseOneShot (intervalsOf s0 ops) + nSettle (succOps s0 ops) + 1 := by
  intro s0
  have h0 : (run s0 ops).paidBase ≤ (run s0 ops).baseBudget :=
    C06.total_base_bound kind same dsc pb produce users e0 hnd hd ops
  have h1 : (run s0 ops).baseBudget + sliceBase (run s0 ops).perBlock (run s0 ops).produce (run s0 ops).pct
      ((run s0 ops).block - (run s0 ops).lastBlock)
      ≤ totalBaseOneShot (intervalsOf s0 ops) + nSettle (succOps s0 ops) + 1 :=
    (interval_one_shot_partial kind same dsc pb produce users e0 ops).2
  omega

/-- the audit's literal formula: `baseBudget = Σ_i (perBlock_i·blocks_i − ⌊perBlock_i·blocks_i·pct_i/10000⌋)`
    whenever nothing is pending.  FALSE (the floor is taken per settlement): see below. -/
def interval_one_shot_exact_full : Prop :=
  ∀ (kind : Kind) (same : Bool) (dsc pb : Nat) (produce : Bool) (users : List Nat) (e0 : Nat) (ops : List Op),
    minted (run (init kind same dsc pb produce users e0) ops) = 0 →
    (run (init kind same dsc pb produce users e0) ops).baseBudget
      = totalBaseOneShot (intervalsOf (init kind same dsc pb produce users e0) ops)

/-- counter-example history: 50 % boosted, one reward unit per block, a claim after each of two blocks:
    each settlement emits 1 and cuts `⌊1/2⌋ = 0`, so the base budget is 2, while the one-shot interval
    formula gives `2 − ⌊2/2⌋ = 1`.  (Rounding in favour of the BASE side; the real contract's
    `take_reward_slice` floors the boosted part in exactly the same way.) -/
theorem interval_one_shot_not_exact : ¬ interval_one_shot_exact_full := by
  intro h
  have := h .mint false 1000 1 true [1] 0
    [.setPct OWNER 5000, .enter 1 none 5 [], .advance 1 0, .claim 1 none [(1, 5)], .advance 2 0,
     .claim 1 none [(2, 5)]]
  revert this
  decide

/-! ### non-vacuity -/

/-- a history with four configuration changes (setPct, setPerBlock, endProduce, startProduce), two users,
    claims / enter / exit, two failed operations (unknown caller, non-owner `setPct`) and two blocks still
    unsettled at the end -/
def demo : List Op :=
  [.enter 1 none 1000 [], .advance 10 0, .claim 1 none [(1, 1000)], .setPct OWNER 2500, .advance 13 0,
   .enter 2 none 3000 [], .advance 17 1, .setPerBlock OWNER 70, .advance 20 1, .claim 1 none [(2, 1000)],
   .claim 9 none [(2, 1000)], .setPct 1 100,
   .endProduce OWNER, .advance 30 2, .claim 2 none [(3, 3000)], .startProduce OWNER, .advance 33 2,
   .exit 2 none 5 3000, .advance 35 2]

/-- the concrete numbers: five intervals `(101,on,0 %,10) (101,on,25 %,7) (70,on,25 %,3) (70,off,25 %,10)
    (70,on,25 %,5)`, emission `1010 + 707 + 210 + 0 + 350 = 2277` of which `140` (2 blocks at 70) is still
    pending; 17 of 19 operations succeed, 9 of them settle; base budget `1857` = closed form, `1816` paid;
    weighted: `19602500 ≤ 10000·1857 + 140·7500 = 19620000 ≤ 19602500 + 9999·9`;
    one-shot interval formula `1010 + 531 + 158 + 0 + 263 = 1962 ≤ 1857 + 105 = 1962 ≤ 1962 + 9 + 1`. -/
example :
    let s0 := init .mint false 1000000000000 101 true [1, 2] 0
    let s := run s0 demo
    (succOps s0 demo).length = 17 ∧ nSettle (succOps s0 demo) = 9 ∧
    intervalsOf s0 demo = [⟨101, true, 0, 10⟩, ⟨101, true, 2500, 7⟩, ⟨70, true, 2500, 3⟩,
      ⟨70, false, 2500, 10⟩, ⟨70, true, 2500, 5⟩] ∧
    totalEmission (intervalsOf s0 demo) = 2277 ∧ totalEmissionS (intervalsOf s0 demo) = 19602500 ∧
    minted s = 140 ∧ s.pct = 2500 ∧ (cfgOf s0).mintSum (succOps s0 demo) = 2137 ∧
    s.generated = 2137 ∧ s.baseBudget = 1857 ∧ budgetOf s0 demo = 1857 ∧ s.paidBase = 1816 ∧
    totalBaseOneShot (intervalsOf s0 demo) = 1962 ∧
    sliceBase s.perBlock s.produce s.pct (s.block - s.lastBlock) = 105 := by
  decide

/-- the step-level statement on a concrete settlement: in the state before the `setPerBlock` of `demo`
    4 blocks are pending at rate 101 and 25 %: `404 − ⌊404·2500/10000⌋ = 303` is added -/
example :
    let s := run (init .mint false 1000000000000 101 true [1, 2] 0) (demo.take 7)
    sliceBase s.perBlock s.produce s.pct (s.block - s.lastBlock) = 303 ∧
    (step s (.setPerBlock OWNER 70)).map (fun r => r.1.baseBudget) = some (s.baseBudget + 303) ∧
    (step s (.merge 1 none [(2, 1000)])).map (fun r => r.1.baseBudget) = some s.baseBudget := by
  decide

end Mx.C06Closed
