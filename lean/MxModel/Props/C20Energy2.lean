/-
  C20 (energy-factory part, completion) — `getPenaltyAmount` versus `reduceLockPeriod` and
  `unlockEarly`, both directions.

  * exec ⇒ quote for `reduceLockPeriod` (`reduce_implies_quote`);
  * the complete acceptance condition of both endpoints: guards ∧ the quote answers
    (`reduce_ok_iff`, `unlockEarly_ok_iff`) and quote ⇒ exec with the exact charge
    (`quote_implies_reduce`, `quote_implies_unlockEarly`);
  * the month alignment: the endpoint replaces the caller's `new_lock_period` by
    `alignedEpochs = new_lock_period − (now + new_lock_period) % 30` before it asks
    `calculate_penalty_amount`, so the matching quote is `getPenaltyAmount(amount, remaining,
    alignedEpochs)`.  The quote with the RAW `new_lock_period` is the charge exactly when
    `(now + new_lock_period) % 30 = 0`; otherwise the endpoint charges AT LEAST the raw quote
    (`raw_quote_le_charge`) and in general strictly more (closed example below: raw quote
    8192, charged 8512 on 20000 tokens).

  Rust: locked-asset/energy-factory/src/unlock_with_penalty.rs — `reduce_lock_period`
  (62–105), `reduce_lock_period_common` (107–160; the alignment is lines 127–138),
  `calculate_penalty_amount` = view `getPenaltyAmount` (179–196).
-/
import MxModel.Props.C20Energy
import Mathlib.Tactic.Ring

set_option linter.unusedSimpArgs false

namespace Mx.C20Energy2
open Mx.Energy

/-- the endpoint's own month alignment of the caller's `new_lock_period`
    (`lock_epochs - ((current_epoch + lock_epochs) - start_of_month(current_epoch + lock_epochs))`) -/
def alignedEpochs (s : St) (epochs : Nat) : Nat := epochs - (s.epoch + epochs) % MONTH

/-- every guard of `reduceLockPeriod` other than "the quote answers, is below the amount and is
    covered by the circulating-supply counter": factory not paused; the requested period is a
    listed lock option; the paid nonce exists (unlock epoch `u`); the caller holds `amt` of it;
    the token is still locked; the `u64` subtraction of the alignment does not underflow; the
    aligned period is positive (otherwise `lock_tokens` would hand out base tokens the factory
    does not hold) and shorter than the remaining one ("Invalid reduce choice"); the caller's
    energy record covers the amount (`total_locked_tokens -= amount` is a checked `BigUint`
    subtraction); the amount is positive -/
def ReduceGuards (s : St) (c n amt epochs u : Nat) : Prop :=
  s.paused = false ∧ isListed s.opts epochs = true ∧ s.unlockOf n = some u ∧
  amt ≤ s.bal c n ∧ s.epoch < u ∧ (s.epoch + epochs) % MONTH ≤ epochs ∧
  0 < alignedEpochs s epochs ∧ alignedEpochs s epochs < u - s.epoch ∧
  amt ≤ (s.view c).T ∧ 0 < amt

instance (s : St) (c n amt epochs u : Nat) : Decidable (ReduceGuards s c n amt epochs u) := by
  unfold ReduceGuards; infer_instance

/-- the guards of `unlockEarly` other than the quote: factory not paused; the paid nonce exists;
    the caller holds `amt` of it; still locked; the energy record covers the amount; positive -/
def EarlyGuards (s : St) (c n amt u : Nat) : Prop :=
  s.paused = false ∧ s.unlockOf n = some u ∧ amt ≤ s.bal c n ∧ s.epoch < u ∧
  amt ≤ (s.view c).T ∧ 0 < amt

instance (s : St) (c n amt u : Nat) : Decidable (EarlyGuards s c n amt u) := by
  unfold EarlyGuards; infer_instance

theorem isListed_ne_nil {opts : List Opt} {ep : Nat} (h : isListed opts ep = true) : opts ≠ [] := by
  rintro rfl; simp [isListed] at h

/-! ### the alignment -/

/-- the aligned period plus the offset into the month is the requested period -/
theorem aligned_add {s : St} {epochs : Nat} (h : (s.epoch + epochs) % MONTH ≤ epochs) :
    alignedEpochs s epochs + (s.epoch + epochs) % MONTH = epochs := by
  unfold alignedEpochs; omega

/-- the re-locked token unlocks at the start of the month of `now + new_lock_period` — the same
    unlock epoch `lockTokens` would give for that option -/
theorem aligned_unlock {s : St} {epochs : Nat} (h : (s.epoch + epochs) % MONTH ≤ epochs) :
    s.epoch + alignedEpochs s epochs = startOfMonth (s.epoch + epochs) := by
  unfold alignedEpochs startOfMonth; omega

/-- the alignment changes nothing exactly when `now + new_lock_period` is a month start -/
theorem aligned_eq_raw_iff {s : St} {epochs : Nat} (h : (s.epoch + epochs) % MONTH ≤ epochs) :
    alignedEpochs s epochs = epochs ↔ (s.epoch + epochs) % MONTH = 0 := by
  unfold alignedEpochs; omega

/-- the aligned period never exceeds the requested one and is less than a month below it -/
theorem aligned_le (s : St) (epochs : Nat) :
    alignedEpochs s epochs ≤ epochs ∧ epochs < alignedEpochs s epochs + MONTH := by
  have : (s.epoch + epochs) % MONTH < MONTH := Nat.mod_lt _ (by decide)
  unfold alignedEpochs; omega

/-! ### exec ⇒ quote -/

/-- the characterisation of a successful reduction in the vocabulary of this file -/
theorem reduce_spec {s s' : St} {c n amt epochs : Nat} {o : Out}
    (h : reduceLock s c n amt epochs = some (s', o)) :
    ∃ u p, ReduceGuards s c n amt epochs u ∧
      penaltyAmount s.opts amt (u - s.epoch) (alignedEpochs s epochs) = some p ∧
      p < amt ∧ p ≤ s.circ ∧ o.v3 = p ∧ o.v2 = amt - p := by
  simp only [reduceLock, Option.bind_eq_bind, Option.bind_eq_some_iff, req_eq_some, sub?_eq_some,
    Option.pure_def, Option.some.injEq, Prod.mk.injEq, Entry.depleteAfterEarly] at h
  obtain ⟨_, h0, _, _, _, hl, u, hu, s1, hdeb, _, hlt, newEp, ⟨hsub, rfl⟩, _, hnew, e,
    ⟨t, ⟨hT, rfl⟩, _⟩, pen, hpen, _, hpos, _, hlt2, _, hnz, circ, ⟨hc, rfl⟩, rfl, rfl⟩ := h
  obtain ⟨hamt, _⟩ := debit_spec hdeb
  refine ⟨u, pen, ⟨h0, hl, hu, hamt, hlt, hsub, ?_, hnew, hT, hpos⟩, hpen, hlt2, hc, rfl, rfl⟩
  show 0 < epochs - (s.epoch + epochs) % MONTH
  omega

/-- **a lock reduction never succeeds where the quote refuses**: success of
    `reduceLockPeriod(epochs)` on `amt` of nonce `n` implies that the view
    `getPenaltyAmount(amt, remaining, aligned)` answers in the same state, `aligned` being the
    endpoint's month alignment of `epochs` — and the answer is what was charged -/
theorem reduce_implies_quote {s s' : St} {c n amt epochs : Nat} {o : Out}
    (h : reduceLock s c n amt epochs = some (s', o)) :
    ∃ u q, s.unlockOf n = some u ∧
      penaltyAmount s.opts amt (u - s.epoch) (alignedEpochs s epochs) = some q ∧ o.v3 = q := by
  obtain ⟨u, p, hg, hq, _, _, ho, _⟩ := reduce_spec h
  exact ⟨u, p, hg.2.2.1, hq, ho⟩

/-! ### quote ⇒ exec -/

/-- **quote ⇒ exec, with the exact charge**: if the guards of `ReduceGuards` hold and the view
    `getPenaltyAmount(amt, remaining, aligned)` answers `p` with `p < amt` (something remains
    after the penalty) and `p` within the circulating-supply counter, then `reduceLockPeriod`
    succeeds, charges exactly `p` and re-locks exactly `amt − p` -/
theorem quote_implies_reduce {s : St} {c n amt epochs u p : Nat}
    (hg : ReduceGuards s c n amt epochs u)
    (hq : penaltyAmount s.opts amt (u - s.epoch) (alignedEpochs s epochs) = some p)
    (hlt : p < amt) (hc : p ≤ s.circ) :
    ∃ s' o, reduceLock s c n amt epochs = some (s', o) ∧ o.v3 = p ∧ o.v2 = amt - p := by
  obtain ⟨h0, hl, hu, hbal, hlk, hsub, hpos, hnew, hT, hamt⟩ := hg
  have hne := isListed_ne_nil hl
  have hq' : penaltyAmount s.opts amt (u - s.epoch) (epochs - (s.epoch + epochs) % MONTH) = some p := hq
  have hpos' : 0 < epochs - (s.epoch + epochs) % MONTH := hpos
  have hnew' : epochs - (s.epoch + epochs) % MONTH < u - s.epoch := hnew
  simp [reduceLock, req, sub?, St.debit, Entry.depleteAfterEarly, h0, hne, hl, hu, hbal, hlk, hsub,
    hnew', hT, hq', hamt, hlt, hpos', hc]

/-- **the complete acceptance condition of `reduceLockPeriod`**: it succeeds exactly when the
    listed guards hold and the quote for the ALIGNED period answers some `p` below the amount
    (and within the circulating-supply counter).  There is no hidden guard. -/
theorem reduce_ok_iff (s : St) (c n amt epochs : Nat) :
    (reduceLock s c n amt epochs).isSome = true ↔
      ∃ u p, ReduceGuards s c n amt epochs u ∧
        penaltyAmount s.opts amt (u - s.epoch) (alignedEpochs s epochs) = some p ∧
        p < amt ∧ p ≤ s.circ := by
  constructor
  · intro h
    obtain ⟨⟨s', o⟩, hd⟩ := Option.isSome_iff_exists.1 h
    obtain ⟨u, p, hg, hq, hlt, hc, _⟩ := reduce_spec hd
    exact ⟨u, p, hg, hq, hlt, hc⟩
  · rintro ⟨u, p, hg, hq, hlt, hc⟩
    obtain ⟨s', o, h, _⟩ := quote_implies_reduce hg hq hlt hc
    simp [h]

/-- the same for `unlockEarly`: what a successful call implies, in this file's vocabulary -/
theorem early_spec {s s' : St} {c n amt : Nat} {o : Out}
    (h : unlockEarly s c n amt = some (s', o)) :
    ∃ u p, EarlyGuards s c n amt u ∧ penaltyAmount s.opts amt (u - s.epoch) 0 = some p ∧
      p < amt ∧ amt ≤ s.circ ∧ o.v1 = p ∧ o.v2 = amt - p := by
  simp only [unlockEarly, Option.bind_eq_bind, Option.bind_eq_some_iff, req_eq_some, sub?_eq_some,
    Option.pure_def, Option.some.injEq, Prod.mk.injEq, Entry.depleteAfterEarly] at h
  obtain ⟨_, h0, u, hu, s1, hdeb, _, hlt, e, ⟨t, ⟨hT, rfl⟩, _⟩, pen, hpen, _, hpos, _, hlt2,
    circ, ⟨hc, rfl⟩, rfl, rfl⟩ := h
  obtain ⟨hamt, _⟩ := debit_spec hdeb
  exact ⟨u, pen, ⟨h0, hu, hamt, hlt, hT, hpos⟩, hpen, hlt2, hc, rfl, rfl⟩

/-- **quote ⇒ exec for `unlockEarly`**: guards + the view `getPenaltyAmount(amt, remaining, 0)`
    answers `p < amt` (+ the amount is within the circulating-supply counter) ⇒ the call
    succeeds, charges exactly `p` and queues `amt − p` base tokens -/
theorem quote_implies_unlockEarly {s : St} {c n amt u p : Nat}
    (hg : EarlyGuards s c n amt u)
    (hq : penaltyAmount s.opts amt (u - s.epoch) 0 = some p) (hlt : p < amt) (hc : amt ≤ s.circ) :
    ∃ s' o, unlockEarly s c n amt = some (s', o) ∧ o.v1 = p ∧ o.v2 = amt - p := by
  obtain ⟨h0, hu, hbal, hlk, hT, hamt⟩ := hg
  simp [unlockEarly, req, sub?, St.debit, Entry.depleteAfterEarly, h0, hu, hbal, hlk, hT, hq, hamt,
    hlt, hc]

/-- **the complete acceptance condition of `unlockEarly`** -/
theorem unlockEarly_ok_iff (s : St) (c n amt : Nat) :
    (unlockEarly s c n amt).isSome = true ↔
      ∃ u p, EarlyGuards s c n amt u ∧ penaltyAmount s.opts amt (u - s.epoch) 0 = some p ∧
        p < amt ∧ amt ≤ s.circ := by
  constructor
  · intro h
    obtain ⟨⟨s', o⟩, hd⟩ := Option.isSome_iff_exists.1 h
    obtain ⟨u, p, hg, hq, hlt, hc, _⟩ := early_spec hd
    exact ⟨u, p, hg, hq, hlt, hc⟩
  · rintro ⟨u, p, hg, hq, hlt, hc⟩
    obtain ⟨s', o, h, _⟩ := quote_implies_unlockEarly hg hq hlt hc
    simp [h]

/-! ### the raw-`epochs` quote versus the charge -/

/-- when `now + new_lock_period` is a month start the quote with the RAW period is the charge -/
theorem raw_quote_eq_charge {s s' : St} {c n amt epochs : Nat} {o : Out}
    (h : reduceLock s c n amt epochs = some (s', o)) (h0 : (s.epoch + epochs) % MONTH = 0) :
    ∃ u, s.unlockOf n = some u ∧ penaltyAmount s.opts amt (u - s.epoch) epochs = some o.v3 := by
  obtain ⟨u, p, hg, hq, _, _, ho, _⟩ := reduce_spec h
  have : alignedEpochs s epochs = epochs := by unfold alignedEpochs; omega
  rw [this] at hq
  exact ⟨u, hg.2.2.1, by rw [ho]; exact hq⟩

/-- the reduction percentage grows when the new period shrinks (arithmetical core) -/
theorem partial_antitone {M pp pn pn' : Nat} (h1 : pn' ≤ pn) (h2 : pn ≤ pp) (h3 : pp ≤ M)
    (h4 : pn < M) :
    (pp - pn) * M / (M - pn) ≤ (pp - pn') * M / (M - pn') := by
  obtain ⟨a, rfl⟩ := Nat.exists_eq_add_of_le h2
  obtain ⟨d, rfl⟩ := Nat.exists_eq_add_of_le h1
  obtain ⟨m, rfl⟩ := Nat.exists_eq_add_of_le h3
  have e1 : pn' + d + a - (pn' + d) = a := by omega
  have e2 : pn' + d + a - pn' = d + a := by omega
  have e3 : pn' + d + a + m - (pn' + d) = a + m := by omega
  have e4 : pn' + d + a + m - pn' = d + a + m := by omega
  rw [e1, e2, e3, e4]
  generalize pn' + d + a + m = M at *
  have hpos : 0 < a + m := by omega
  rw [Nat.le_div_iff_mul_le (by omega)]
  have hx : a * M / (a + m) * (a + m) ≤ a * M := Nat.div_mul_le_self _ _
  generalize a * M / (a + m) = X at *
  -- X·(a+m) ≤ a·M  ⇒  X·(d+a+m)·(a+m) ≤ a·M·(d+a+m) ≤ (d+a)·M·(a+m)
  have hy : X * (d + a + m) * (a + m) ≤ (d + a) * M * (a + m) := by
    have k1 : X * (a + m) * (d + a + m) ≤ a * M * (d + a + m) := Nat.mul_le_mul_right _ hx
    have k2 : (d + a) * M * (a + m) = a * M * (d + a + m) + d * m * M := by ring
    have k3 : X * (d + a + m) * (a + m) = X * (a + m) * (d + a + m) := by ring
    rw [k2, k3]
    exact Nat.le_trans k1 (Nat.le_add_right _ _)
  exact Nat.le_of_mul_le_mul_right hy hpos

/-- `getPenaltyAmount` is antitone in the new period on admissible options: asking for a
    shorter new period never lowers the quote -/
theorem quote_antitone {opts : List Opt} (ha : Admissible opts) {amt prev new new' q q' : Nat}
    (h0 : 0 < new') (hle : new' ≤ new)
    (hq : penaltyAmount opts amt prev new = some q)
    (hq' : penaltyAmount opts amt prev new' = some q') : q ≤ q' := by
  obtain ⟨_, hn, _, pct, hp, rfl⟩ := penaltyAmount_spec hq
  obtain ⟨_, hn', _, pct', hp', rfl⟩ := penaltyAmount_spec hq'
  have hne : ¬ new = 0 := by omega
  have hne' : ¬ new' = 0 := by omega
  simp only [hne, hne', if_false] at hp hp'
  -- the three full percentages exist
  have hex : ∃ pp pn, pctFull opts prev = some pp ∧ pctFull opts new = some pn := by
    simp only [pctPartial, Option.bind_eq_bind, Option.bind_eq_some_iff] at hp
    obtain ⟨pp, h1, pn, h2, _⟩ := hp
    exact ⟨pp, pn, h1, h2⟩
  have hex' : ∃ pn', pctFull opts new' = some pn' := by
    simp only [pctPartial, Option.bind_eq_bind, Option.bind_eq_some_iff] at hp'
    obtain ⟨_, _, pn', h2, _⟩ := hp'
    exact ⟨pn', h2⟩
  obtain ⟨pp, pn, h1, h2⟩ := hex
  obtain ⟨pn', h2'⟩ := hex'
  obtain ⟨a, b, e, _⟩ := Mx.C09.reduce_pct ha hn h1 h2
  obtain ⟨_, _, e', _⟩ := Mx.C09.reduce_pct ha hn' h1 h2'
  rw [e] at hp; rw [e'] at hp'
  cases hp; cases hp'
  have hm := Mx.C09.penalty_mono ha hle h2' h2
  have hmax := Mx.C09.penalty_le_max ha h1
  have := partial_antitone hm a (hmax.1.trans hmax.2) b
  exact Nat.div_le_div_right (Nat.mul_le_mul_left _ this)

/-- **the caller pays at least the raw quote.**  In every state reached from a deployment with
    admissible lock options: if `reduceLockPeriod(epochs)` succeeds and the view answers `q` for
    the RAW `epochs` the caller passed, the penalty charged is `≥ q` — the month alignment only
    shortens the new period, which only raises the penalty.  Equality is not guaranteed unless
    `(now + epochs) % 30 = 0` (`raw_quote_eq_charge`; strict example below). -/
theorem raw_quote_le_charge (cfg : Cfg) (hc : Admissible cfg.opts) (ops : List Op)
    {s' : St} {c n amt epochs u q : Nat} {o : Out}
    (h : reduceLock (run (init cfg) ops) c n amt epochs = some (s', o))
    (hu : (run (init cfg) ops).unlockOf n = some u)
    (hq : penaltyAmount (run (init cfg) ops).opts amt (u - (run (init cfg) ops).epoch) epochs = some q) :
    q ≤ o.v3 := by
  have ha := Mx.C09.options_admissible_forever cfg hc ops
  generalize run (init cfg) ops = s at *
  obtain ⟨u', p, hg, hp, _, _, ho, _⟩ := reduce_spec h
  have : u' = u := by
    have := hg.2.2.1; rw [hu] at this; cases this; rfl
  subst this
  rw [ho]
  exact quote_antitone ha hg.2.2.2.2.2.2.1 (aligned_le s epochs).1 hq hp

/-! ### non-vacuity (closed reachable states, NON-ZERO penalties) -/

/-- the deployment of `Props/C09.lean`'s example: the repository's three lock options -/
def exCfg : Cfg := { epoch := 5, opts := [(360, 4000), (720, 6000), (1440, 8000)], unbond := 10,
                     burnPct := 2500, minLock := 4, cooldown := 6, users := 2, funds := 1000000 }

/-- user 1 locked 100000 for 1440 epochs (unlock epoch 1440); now epoch 555, NOT a month start -/
def exMid : St := run (init exCfg) [.lock 1 100000 1440 0, .advance 555]

/-- the same at epoch 540, a month start -/
def exAligned : St := run (init exCfg) [.lock 1 100000 1440 0, .advance 540]

example : Admissible exCfg.opts :=
  ⟨by decide, by decide, by decide, by decide, by decide, by decide, by decide, by decide, trivial⟩

/-- `C20.penalty_quote_eq_unlockEarly` / `unlockEarly_implies_quote` / `unlockEarly_ok_iff` /
    `quote_implies_unlockEarly`: every guard holds, the view quotes 6458 on 10000 (64.58 %) and
    the endpoint charges exactly that, queueing 3542 -/
example :
    let s := exMid
    s.unlockOf 1 = some 1440 ∧ EarlyGuards s 1 1 10000 1440 ∧
    penaltyAmount s.opts 10000 (1440 - s.epoch) 0 = some 6458 ∧ 10000 ≤ s.circ ∧
    (unlockEarly s 1 1 10000).map (·.2) = some ⟨6458, 3542, 0⟩ ∧
    (unlockEarly s 1 1 100001).isSome = false ∧ (unlockEarly s 2 1 10).isSome = false := by
  decide

set_option maxRecDepth 8000 in
/-- `C20.penalty_quote_eq_reduceLock` / `reduce_implies_quote` / `reduce_ok_iff` /
    `quote_implies_reduce` at epoch 555, reduction to the 360 option: the endpoint aligns 360 to
    345 (`(555+360) % 30 = 15`), every guard holds, the quote for 345 is 8512 and exactly that
    is charged (11488 re-locked to epoch 900 = start of the month of 915).
    **The quote for the raw 360 is 8192 — 320 LESS than what the caller pays.** -/
example :
    let s := exMid
    alignedEpochs s 360 = 345 ∧ s.epoch + alignedEpochs s 360 = 900 ∧
    ReduceGuards s 1 1 20000 360 1440 ∧
    penaltyAmount s.opts 20000 (1440 - s.epoch) 345 = some 8512 ∧ 8512 ≤ s.circ ∧
    (reduceLock s 1 1 20000 360).map (·.2) = some ⟨2, 11488, 8512⟩ ∧
    penaltyAmount s.opts 20000 (1440 - s.epoch) 360 = some 8192 := by
  decide

set_option maxRecDepth 8000 in
/-- `raw_quote_eq_charge`: at a month start (epoch 540) the raw quote 8332 is the charge -/
example :
    let s := exAligned
    (s.epoch + 360) % MONTH = 0 ∧ alignedEpochs s 360 = 360 ∧
    penaltyAmount s.opts 20000 (1440 - s.epoch) 360 = some 8332 ∧
    (reduceLock s 1 1 20000 360).map (·.2) = some ⟨2, 11668, 8332⟩ := by
  decide

set_option maxRecDepth 8000 in
/-- the guards are live: an unlisted period, a period that does not shorten the lock, a paused
    factory and an amount above the holding each refuse, although the view answers -/
example :
    let s := exMid
    (reduceLock s 1 1 20000 300).isSome = false ∧ isListed s.opts 300 = false ∧
    (reduceLock s 1 1 20000 1440).isSome = false ∧ ¬ alignedEpochs s 1440 < 1440 - s.epoch ∧
    (reduceLock { s with paused := true } 1 1 20000 360).isSome = false ∧
    (reduceLock s 1 1 100001 360).isSome = false ∧
    (penaltyAmount s.opts 100001 (1440 - s.epoch) 345).isSome = true := by
  decide

end Mx.C20Energy2
