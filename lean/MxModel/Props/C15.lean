/-
  C15 — Dual-yield (metastaking) tokens are fully backed and unwind to their parts.

  Statement: every dual-yield token is backed: for each outstanding nonce the proxy holds the
  LP-farm and staking-farm tokens recorded in it, a partial exit releases the proportional (floor)
  part, and the parts released over the token's life never exceed the whole.  Unstaking returns the
  other pool token, both farms' rewards and an unbond token for exactly the staking-token amount
  obtained from the removed liquidity; the proxy keeps no user funds, and the staked value it
  registers is the pool's safe price of the position, not the spot price.

  Model: Core/DualYield.lean — the PROXY's own logic.  Whatever the pair, the LP farm and the
  staking farm return is an argument of the operation (`StakeResp`, `ClaimResp`, `UnstakeResp`);
  every theorem is universally quantified over those responses, with the callee facts it needs
  as explicit hypotheses.  `holdLp`/`holdSt` are the proxy's balances of LP-farm / staking-farm
  tokens per nonce, `pass` its balances of the pass-through tokens, `Tok.out` the outstanding
  supply and `Tok.rel` the LP-farm amount released so far of one dual-yield nonce.  The
  composition with the real callees is validated by the correspondence run and the oracles of
  harness/src/bin/w_metastaking.rs.  Only property theorems live in this file.
-/
import MxModel.Lemmas.DualYieldLife
import MxModel.Lemmas.DualYieldSupply

namespace Mx.C15
open Mx.DualYield

/-! ### dy_backed -/

/-- one transaction preserves the backing invariant (any operation, any callee responses) -/
theorem inv_step {s s' : St} {op : Op} {o : Out} (hi : Inv s) (h : step s op = some (s', o)) :
    Inv s' :=
  step_inv hi h

/-- the backing invariant holds after every history -/
theorem inv_run (ops : List Op) : Inv (run init ops) :=
  run_inv ops inv_init

/-- **dy_backed.**  After any history, for every LP-farm nonce `n` the proxy holds at least the
    sum of the (rounded-up) shares `⌈lpA·out/stA⌉` of the outstanding dual-yield tokens that record
    `n` — `≥`, because the floor of a partial exit leaves sub-unit dust behind — and for every
    staking-farm nonce exactly the outstanding supply recorded against it. -/
theorem dy_backed (ops : List Op) (n : Nat) :
    let s := run init ops
    needLp s.toks n ≤ s.holdLp n ∧ s.holdSt n = owedSt s.toks n := by
  intro s
  have hi := inv_run ops
  refine ⟨?_, hi.st n⟩
  rw [hi.lp n]
  exact needLp_le_owedLp n hi.toks

/-- dy_backed, the exact ledger behind it: the proxy's balance of LP-farm nonce `n` is the sum of
    the not-yet-released amounts `lpA − rel`, and each of them covers its outstanding share. -/
theorem dy_backed_exact (ops : List Op) :
    let s := run init ops
    (∀ n, s.holdLp n = owedLp s.toks n) ∧
      ∀ t ∈ s.toks, t.lpA * t.out ≤ (t.lpA - t.rel) * t.stA ∧ shareCeil t ≤ t.lpA - t.rel := by
  intro s
  have hi := inv_run ops
  exact ⟨hi.lp, fun t ht => ⟨(hi.toks t ht).share, shareCeil_le (hi.toks t ht)⟩⟩

/-- dy_backed, operationally: in every reachable state whoever holds `x` units of an outstanding
    dual-yield nonce can have them unwound — the proxy's farm-token balances never block it.
    (The only refusal left is `into_part`'s own "Zero amount" guard.) -/
theorem dy_redeemable (ops : List Op) {u d x p : Nat} {t : Tok}
    (hd : d ≠ 0) (ht : (run init ops).toks[d - 1]? = some t) (hx : x ≠ 0)
    (hu : x ≤ (run init ops).user u d) (hp : part t x = some p) :
    ∃ s', release (run init ops) u d x = some (s', p) :=
  release_ok (inv_run ops) hd ht hx hu
    (Nat.le_trans hu (holding_le_out (supply_run ops) (by simp [outOf, hd, ht]))) hp

/-- the outstanding supply of every dual-yield nonce is exactly what the accounts hold: the proxy
    itself keeps no dual-yield tokens (`B` bounds the accounts that ever held one). -/
theorem dy_supply_is_held (ops : List Op) :
    ∃ B, (∀ u d, B ≤ u → (run init ops).user u d = 0) ∧
      ∀ d, held (run init ops).user B d = outOf (run init ops).toks d := by
  obtain ⟨B, h⟩ := supply_run ops
  exact ⟨B, h.bound, h.sum⟩

/-! ### dy_part -/

/-- **dy_part.**  `into_part`: paying the whole supply releases the whole LP-farm amount; paying
    `x` of `stA` releases `⌊lpA·x/stA⌋`, and the call fails when that is 0; the staking-farm part
    is `x` itself. -/
theorem dy_part {t : Tok} {x p : Nat} :
    part t x = some p ↔
      (x = t.stA ∧ p = t.lpA) ∨ (x ≠ t.stA ∧ t.stA ≠ 0 ∧ p = t.lpA * x / t.stA ∧ p ≠ 0) :=
  part_eq_some

/-- a partial/full exit releases exactly the part: `unstakeFarmTokens` with `x` units of nonce `d`
    takes `part t x` LP-farm tokens of nonce `t.lpN` and `x` staking-farm tokens of nonce `t.stN`
    out of the proxy, burns `x` of the caller's dual-yield tokens and touches nothing else. -/
theorem unstake_releases_part {s s' : St} {c d x : Nat} {r : UnstakeResp} {o : Out}
    (h : unstake s c d x r = some (s', o)) :
    ∃ t, s.toks[d - 1]? = some t ∧ part t x = some o.lpReleased ∧ o.stReleased = x ∧
      s'.holdLp = upd s.holdLp t.lpN (s.holdLp t.lpN - o.lpReleased) ∧ o.lpReleased ≤ s.holdLp t.lpN ∧
      s'.holdSt = upd s.holdSt t.stN (s.holdSt t.stN - x) ∧ x ≤ s.holdSt t.stN ∧
      s'.user = upd2 s.user c d (s.user c d - x) ∧ x ≤ s.user c d ∧
      s'.toks = s.toks.set (d - 1) (relTok t x o.lpReleased) := by
  obtain ⟨s1, p, hq, rfl, rfl⟩ := unstake_spec h
  obtain ⟨t, _, ht, _, hu, hp, _, hl, hs, rfl⟩ := release_spec hq
  exact ⟨t, ht, hp, rfl, rfl, hl, rfl, hs, rfl, hu, rfl⟩

/-! ### dy_parts_le_whole -/

/-- **dy_parts_le_whole.**  After any history, for every dual-yield nonce the LP-farm amount
    released so far is at most the recorded whole, and the outstanding supply at most the minted
    supply (so the staking-farm amount released, `stA − out`, is at most the whole too). -/
theorem dy_parts_le_whole (ops : List Op) :
    ∀ t ∈ (run init ops).toks, t.rel ≤ t.lpA ∧ t.out ≤ t.stA := fun t ht =>
  ⟨((inv_run ops).toks t ht).rel_le, ((inv_run ops).toks t ht).out_le⟩

/-- … over the token's life: along any continuation of any history a nonce keeps its attributes,
    its released amount only grows and its outstanding supply only shrinks — and stays within the
    whole by the previous theorem. -/
theorem dy_token_life (before after : List Op) {i : Nat} {t : Tok}
    (h : (run init before).toks[i]? = some t) :
    ∃ t', (run init (before ++ after)).toks[i]? = some t' ∧
      t'.lpN = t.lpN ∧ t'.lpA = t.lpA ∧ t'.stN = t.stN ∧ t'.stA = t.stA ∧
      t.rel ≤ t'.rel ∧ t'.rel ≤ t.lpA ∧ t'.out ≤ t.out := by
  rw [run_append]
  obtain ⟨t', ht', l⟩ := run_grows (run init before) after i t h
  have hk : TokOk t' := by
    have := inv_run (before ++ after)
    rw [run_append] at this
    exact this.toks t' (List.mem_of_getElem? ht')
  exact ⟨t', ht', l.lpN, l.lpA, l.stN, l.stA, l.rel, l.lpA ▸ hk.rel_le, l.out⟩

/-- each release adds exactly its part to the released amount of the paid nonce -/
theorem release_accumulates {s s' : St} {u d x p : Nat} (h : release s u d x = some (s', p)) :
    ∃ t, s.toks[d - 1]? = some t ∧ part t x = some p ∧
      s'.toks = s.toks.set (d - 1) { t with out := t.out - x, rel := t.rel + p } := by
  obtain ⟨t, _, ht, _, _, hp, _, _, _, rfl⟩ := release_spec h
  exact ⟨t, ht, hp, rfl⟩

/-! ### unstake_outputs -/

/-- **unstake_outputs.**  A successful `unstakeFarmTokens` hands the caller the other pool token
    the pair returned, the LP farm's rewards, the staking farm's rewards and the unbond token the
    staking farm created; the staking tokens the pair returned are what is sent to the staking farm
    as the unbond amount. -/
theorem unstake_outputs {s s' : St} {c d x : Nat} {r : UnstakeResp} {o : Out}
    (h : unstake s c d x r = some (s', o)) :
    o.o1 = r.other ∧ o.o2 = r.lpRew ∧ o.o3 = r.stRew ∧ o.unN = r.unN ∧ o.unA = r.unA ∧
      o.toStaking = r.stk := by
  obtain ⟨s1, p, _, _, rfl⟩ := unstake_spec h
  exact ⟨rfl, rfl, rfl, rfl, rfl, rfl⟩

/-- … hence, if the staking farm mints the unbond token for the amount it was sent
    (`unstake_farm_through_proxy`: `Some(first_payment.amount)`), the caller's unbond token is for
    exactly the staking-token amount obtained from the removed liquidity — not for the position. -/
theorem unbond_eq_pool_output {s s' : St} {c d x : Nat} {r : UnstakeResp} {o : Out}
    (h : unstake s c d x r = some (s', o)) (hfarm : r.unA = r.stk) : o.unA = r.stk := by
  rw [(unstake_outputs h).2.2.2.2.1, hfarm]

/-! ### proxy_keeps_nothing -/

/-- **proxy_keeps_nothing.**  After every history the proxy's balance of every pass-through
    token — staking token (= staking reward token), other pool token, LP token, LP-farm reward
    (locked) tokens, unbond tokens — is 0.  Only the backing farm tokens of `dy_backed` remain. -/
theorem proxy_keeps_nothing (ops : List Op) : (run init ops).pass = ⟨0, 0, 0, 0, 0⟩ :=
  (inv_run ops).pass

/-- no operation changes a pass-through balance, whatever the callees answered (in particular the
    forwarding of what was just received can never fail for lack of funds) -/
theorem pass_through_untouched {s s' : St} {op : Op} {o : Out} (h : step s op = some (s', o)) :
    s'.pass = s.pass := by
  cases op with
  | stake c auth lpN a ms r =>
      obtain ⟨q, _, _, hq, _, rfl, _⟩ := stake_spec h
      exact (releaseAll_pass hq : q.1.pass = s.pass)
  | claim c auth d x r =>
      obtain ⟨s1, p, _, hq, _, rfl, _⟩ := claim_spec h
      exact (release_pass hq : s1.pass = s.pass)
  | unstake c d x r =>
      obtain ⟨s1, p, hq, rfl, _⟩ := unstake_spec h
      exact release_pass hq
  | xfer u v d x =>
      obtain ⟨_, _, _, _, rfl⟩ := xfer_spec h
      rfl
  | env =>
      simp only [step, Option.some.injEq, Prod.mk.injEq] at h
      obtain ⟨rfl, _⟩ := h
      rfl
  | bad => simp [step] at h

/-- no zero-supply nonces: if every staking-farm answer in the history is a non-zero amount, every
    dual-yield nonce has a non-zero total supply — so every LP-farm token the proxy holds is either
    owed to an outstanding dual-yield token or floor dust of partial exits. -/
theorem no_zero_supply (ops : List Op) (hr : ∀ op ∈ ops, RespPos op) :
    ∀ t ∈ (run init ops).toks, t.stA ≠ 0 :=
  run_allPos ops (by intro t h; simp [init] at h) hr

/-! ### stake_value_is_safe_price -/

/-- **stake_value_is_safe_price.**  The amount `stakeFarmTokens` registers in the staking farm
    (`staked_token_amount` of `stakeFarmThroughProxy`) is exactly the pair's safe-price answer for
    the LP amount of the position, and the call is refused when that value is 0. -/
theorem stake_value_is_safe_price {s s' : St} {c lpN a : Nat} {auth : Bool} {ms : List (Nat × Nat)}
    {r : StakeResp} {o : Out} (h : stake s c auth lpN a ms r = some (s', o)) :
    o.toStaking = r.safe ∧ r.safe ≠ 0 := by
  obtain ⟨q, _, _, _, hs, _, rfl⟩ := stake_spec h
  exact ⟨rfl, hs⟩

/-- the same for `claimDualYield`: the new value handed to `claimRewardsWithNewValue` is the
    safe-price answer for the LP part of the payment -/
theorem claim_value_is_safe_price {s s' : St} {c d x : Nat} {auth : Bool} {r : ClaimResp} {o : Out}
    (h : claim s c auth d x r = some (s', o)) : o.toStaking = r.safe ∧ r.safe ≠ 0 := by
  obtain ⟨s1, p, _, _, hs, _, rfl⟩ := claim_spec h
  exact ⟨rfl, hs⟩

/-- the new dual-yield token of a stake: it records the LP-farm token the proxy now holds and is
    minted for the staking-farm amount; if the staking farm returned a token for the value it was
    asked to create plus the merged-in positions, that is `safe + Σ merged staking parts`. -/
theorem stake_mints {s s' : St} {c lpN a : Nat} {auth : Bool} {ms : List (Nat × Nat)}
    {r : StakeResp} {o : Out} (h : stake s c auth lpN a ms r = some (s', o))
    (hfarm : r.stA = r.safe + o.stReleased) :
    o.dyA = r.safe + o.stReleased ∧
      s'.toks[o.dyN - 1]? = some ⟨(stakeLp lpN a ms r).1, (stakeLp lpN a ms r).2, r.stN, r.stA, r.stA, 0⟩ ∧
      s'.user c o.dyN = s.user c o.dyN + o.dyA := by
  obtain ⟨q, _, _, hq, _, rfl, rfl⟩ := stake_spec h
  refine ⟨hfarm, ?_, ?_⟩
  · rw [mint_fst]
    show (q.1.toks ++ [newTok _ _ _ _])[q.1.toks.length + 1 - 1]? = _
    simp [newTok]
  · rw [mint_fst]
    show upd2 q.1.user c (q.1.toks.length + 1) (q.1.user c (q.1.toks.length + 1) + r.stA) c
      (q.1.toks.length + 1) = s.user c (q.1.toks.length + 1) + r.stA
    rw [upd2_same, releaseAll_user_fresh hq]

/-! ### bookkeeping -/

/-- a failed transaction leaves the state untouched (atomicity as modelled) -/
theorem failed_tx_no_effect (s : St) (op : Op) (h : step s op = none) : run s [op] = s := by
  simp [run, h]

/-- a plain transfer of dual-yield tokens between accounts changes nothing the proxy holds -/
theorem xfer_touches_only_holders {s s' : St} {u v d x : Nat} {o : Out}
    (h : xfer s u v d x = some (s', o)) :
    s'.toks = s.toks ∧ s'.holdLp = s.holdLp ∧ s'.holdSt = s.holdSt ∧ s'.pass = s.pass := by
  obtain ⟨_, _, _, _, rfl⟩ := xfer_spec h
  exact ⟨rfl, rfl, rfl, rfl⟩

/-! ### non-vacuity -/

/-- a concrete history: two stakes of the same LP-farm nonce, a partial claim, a stake that merges
    a part of an older token, a partial and a full unstake, a transfer, and a last unstake of one
    unit that `into_part` refuses (`⌊100·1/300⌋ = 0`) — every guard of the theorems above is live,
    floor dust appears (nonce 1: 28 LP-farm tokens left for a share of `⌈100·80/300⌉ = 27`), and
    the pass-through balances are 0. -/
example :
    let s := run init
      [.stake 1 true 7 100 [] ⟨300, 1, 300, 0, 0, 0, 0⟩,
       .stake 2 true 7 50 [] ⟨150, 2, 150, 5, 0, 0, 0⟩,
       .claim 1 true 1 100 ⟨99, 8, 33, 4, 3, 99, 2⟩,
       .stake 1 true 9 10 [(1, 50), (3, 99)] ⟨30, 4, 179, 1, 10, 59, 6⟩,
       .unstake 1 1 70 ⟨23, 1, 60, 9, 5, 60, 0⟩,
       .unstake 2 2 150 ⟨50, 2, 140, 20, 6, 140, 3⟩,
       .xfer 1 2 4 79,
       .unstake 1 1 1 ⟨1, 0, 1, 1, 7, 1, 0⟩]
    s.toks.length = 4 ∧ s.holdLp 7 = 28 ∧ s.holdLp 10 = 59 ∧ s.holdSt 1 = 80 ∧ s.holdSt 4 = 179 ∧
      s.user 1 1 = 80 ∧ s.user 1 4 = 100 ∧ s.user 2 4 = 79 ∧ s.user 2 2 = 0 ∧
      s.pass = ⟨0, 0, 0, 0, 0⟩ := by
  decide

/-- the "Zero amount" guard is reachable: with `lpA = 10`, `stA = 300` one unit releases
    `⌊10·1/300⌋ = 0` LP-farm tokens and the call is refused, 30 units release 1 -/
example : part ⟨7, 10, 1, 300, 300, 0⟩ 1 = none ∧ part ⟨7, 10, 1, 300, 300, 0⟩ 30 = some 1 ∧
    part ⟨7, 10, 1, 300, 300, 0⟩ 300 = some 10 := by
  decide

/-- the zero-value guard (finding F4): a stake whose safe-price value is 0 is refused -/
example : stake init 1 true 7 100 [] ⟨0, 1, 0, 0, 0, 0, 0⟩ = none := by
  decide

end Mx.C15
