/-
  Prelude of the GENERATED kernel files (Gen/K*.lean, written by bin/gen-kernels from the Rust
  source).  Hand-written, import-free apart from Core/Arith (`req`, `sub?`).

  `div?` / `mod?`: `BigUint` (and `u64`) division aborts the transaction on a zero divisor.
-/
import MxModel.Core.Arith

namespace Mx

/-- checked division (`a / b` aborts when `b = 0`) -/
def div? (a b : Nat) : Option Nat := if b = 0 then none else some (a / b)

/-- checked remainder -/
def mod? (a b : Nat) : Option Nat := if b = 0 then none else some (a % b)

/-- an `Option` value as the translator's (tag, payload) pair: the tag (`None` = 0, `Some _` = 1) … -/
def otag (o : Option Nat) : Nat := match o with | none => 0 | some _ => 1

/-- … and the payload (0 for `None`: the zero address / the default value) -/
def oval (o : Option Nat) : Nat := match o with | none => 0 | some x => x

@[simp] theorem div?_eq_some {a b c : Nat} : div? a b = some c ↔ b ≠ 0 ∧ c = a / b := by
  unfold div?; split <;> simp [*, eq_comm]

@[simp] theorem mod?_eq_some {a b c : Nat} : mod? a b = some c ↔ b ≠ 0 ∧ c = a % b := by
  unfold mod?; split <;> simp [*, eq_comm]

@[simp] theorem div?_eq_none {a b : Nat} : div? a b = none ↔ b = 0 := by
  unfold div?; split <;> simp [*]

@[simp] theorem sub?_eq_none {a b : Nat} : sub? a b = none ↔ a < b := by
  unfold sub?; split <;> simp [*] <;> omega

end Mx
