-- Root of the library: the models (Core), and the property theorems (Props).
import MxModel.Core.Arith
import MxModel.Core.Pair
